//@ inject crate=transport src=quic/s2n-quic-transport/src/ack/ack_manager.rs
// OUTCOME (worker c06c08, not part of the registered checks): compiles and injects in the transport crate (where
// IntervalSet::check_integrity is compiled out), but on_processed_packet K=0, on_transmit K=1 and on_packet_ack K=1 all hit a
// 900 s timeout (no result, CBMC still running); K=2 variants were not started.  Same cause as
// kani_injected_c08_ack_ranges.rs: symbolic execution over VecDeque<Interval<PacketNumber>> is too slow in this Kani
// version.  Expected finding if it ever runs: `C08/ack_manager.on_processed_packet/out_of_order_acked_immediately` should fail
// for old_max == 2^62-1 (`max_value.next()?` makes the closure return None => treated as in order and largest); the
// `#outside-known` residual obligation excludes exactly that input.  To retry: copy to contracts/kani/transport/c08_ack_manager.rs.
// Contract harnesses for AckManager -- property C08 ("every ACK frame an endpoint sends acknowledges only packet numbers
// it has actually received and successfully processed ... every ack-eliciting packet it processes is acknowledged promptly
// (within the advertised max_ack_delay plus scheduling granularity, immediately when it arrives out of order)").
// Predicates: contracts/spec/ack_ranges.rs (shared with verus/lemmas/C08.rs).
//
// One-step inductive pattern (DESIGN 2.3): a manager holding a *concrete* number K of stored ranges with symbolic
// values (built through the public insert API, capacity `ack_ranges_limit = 2`), one call of the real function, a
// symbolic witness packet number q for the set view.  The write context is a stack-only writer (AUTHORING: the
// crate's testing writer is unusable under Kani) that records the ACK frame it is handed instead of encoding it.
use super::*;
use core::time::Duration;
use s2n_codec::EncoderValue;
use s2n_quic_core::{
    endpoint,
    frame::{ack::AckRanges as AckRangesTrait, ack_elicitation::AckElicitation, FrameTrait},
    inet::{DatagramInfo, ExplicitCongestionNotification},
    packet::number::PacketNumberRange,
    time::timer::Provider as _,
};
#[allow(dead_code, unused_variables)]
mod spec {
    include!("../../spec/ack_ranges.rs");
}
use spec::*;

const MAXV: u64 = s2n_quic_core::varint::MAX_VARINT_VALUE;
const SPACE: PacketNumberSpace = PacketNumberSpace::ApplicationData;
const LIMIT: u8 = 2;

fn pn_of(x: u64) -> PacketNumber {
    SPACE.new_packet_number(VarInt::new(x).unwrap())
}

/// 10 s + a symbolic number of nanoseconds (< 1 s): no Duration <-> nanos round trips (AUTHORING tool facts)
fn ts(secs: u64, nanos: u32) -> Timestamp {
    unsafe { Timestamp::from_duration(Duration::new(secs, nanos)) }
}

fn any_nanos() -> u32 {
    let n: u32 = kani::any();
    kani::assume(n < 1_000_000_000);
    n
}

struct NoopSubscriber;
impl event::Subscriber for NoopSubscriber {
    type ConnectionContext = ();
    fn create_connection_context(&mut self, _meta: &event::api::ConnectionMeta, _info: &event::api::ConnectionInfo) -> Self::ConnectionContext {}
}

fn settings() -> ack::Settings {
    ack::Settings { ack_ranges_limit: LIMIT, ..Default::default() }
}

/// Arbitrary manager with exactly `k` stored ranges (k <= LIMIT), any transmission state, any counters, the delayed-ACK
/// timer either idle or armed by an earlier packet (i.e. not later than `now + max_ack_delay`: the timer is only ever
/// set to `timestamp_of_an_earlier_packet + max_ack_delay` and datagram timestamps do not decrease).
fn any_manager(k: usize, now: Timestamp) -> AckManager {
    let mut m = AckManager::new(SPACE, settings());
    let b: [u64; 4] = kani::any();
    kani::assume(b[0] <= b[1] && b[2] <= b[3] && b[3] <= MAXV && b[1] < MAXV && b[1] + 1 < b[2]);
    if k >= 1 {
        let r = m.ack_ranges.insert_packet_number_range(PacketNumberRange::new(pn_of(b[0]), pn_of(b[1])));
        assert!(r.is_ok());
    }
    if k >= 2 {
        let r = m.ack_ranges.insert_packet_number_range(PacketNumberRange::new(pn_of(b[2]), pn_of(b[3])));
        assert!(r.is_ok());
    }
    let st: u8 = kani::any();
    let retx: usize = kani::any();
    kani::assume(st < 3 && retx <= 10);
    m.transmission_state = match st {
        0 => AckTransmissionState::Disabled,
        1 => AckTransmissionState::Passive { retransmissions: retx },
        _ => AckTransmissionState::Active { retransmissions: retx },
    };
    // Disabled exactly when there is nothing to acknowledge (on_update after every change of the ranges)
    kani::assume((st == 0) == (k == 0));
    if kani::any() {
        let t = ts(10, any_nanos());
        kani::assume(t <= now + m.ack_settings.max_ack_delay);
        m.ack_delay_timer.set(t);
    }
    m.processed_packets_since_transmission = Counter::new(kani::any());
    m.transmissions_since_elicitation = Counter::new(kani::any());
    if kani::any() {
        let t = ts(9, any_nanos());
        m.largest_received_packet_number_at = Some(t);
    }
    m
}

fn member(m: &AckManager, q: u64) -> bool {
    m.ack_ranges.contains(&pn_of(q))
}

fn max_stored(m: &AckManager) -> Option<u64> {
    m.ack_ranges.max_value().map(|p| p.as_u64())
}

fn any_ecn() -> ExplicitCongestionNotification {
    let e: u8 = kani::any();
    kani::assume(e < 4);
    match e {
        0 => ExplicitCongestionNotification::NotEct,
        1 => ExplicitCongestionNotification::Ect1,
        2 => ExplicitCongestionNotification::Ect0,
        _ => ExplicitCongestionNotification::Ce,
    }
}

fn processed_packet_step(k: usize) {
    let now = ts(10, any_nanos());
    let mut m = any_manager(k, now);
    let pn: u64 = kani::any();
    let q: u64 = kani::any(); // symbolic witness
    kani::assume(pn <= MAXV && q <= MAXV);
    let ecn = any_ecn();
    let datagram = DatagramInfo {
        timestamp: now,
        payload_len: 1200,
        ecn,
        destination_connection_id: s2n_quic_core::connection::LocalId::TEST_ID,
        destination_connection_id_classification: s2n_quic_core::connection::id::Classification::Local,
        source_connection_id: None,
    };
    let mut packet = ProcessedPacket::new(pn_of(pn), &datagram);
    let eliciting: bool = kani::any();
    packet.ack_elicitation = if eliciting { AckElicitation::Eliciting } else { AckElicitation::NonEliciting };
    packet.path_challenge_on_active_path = kani::any();

    let old_q = member(&m, q);
    let old_max = max_stored(&m);
    let old_min = m.ack_ranges.min_value().map(|p| p.as_u64());
    let old_len = m.ack_ranges.interval_len();
    let old_ecn = m.ecn_counts;
    let old_at = m.largest_received_packet_number_at;
    let was_active = m.transmission_state.is_active();

    let ip = [127u8, 0, 0, 1];
    let cid = [1u8, 2, 3, 4];
    let path = event::builder::Path {
        local_addr: event::builder::SocketAddress::IpV4 { ip: &ip, port: 443 },
        local_cid: event::builder::ConnectionId { bytes: &cid },
        remote_addr: event::builder::SocketAddress::IpV4 { ip: &ip, port: 4433 },
        remote_cid: event::builder::ConnectionId { bytes: &cid },
        id: 0,
        is_active: true,
    };
    let mut sub = NoopSubscriber;
    let mut ctx = ();
    let mut publisher = event::ConnectionPublisherSubscriber::new(
        event::builder::ConnectionMeta { endpoint_type: endpoint::Type::Server, id: 0, timestamp: now },
        1,
        &mut sub,
        &mut ctx,
    );

    m.on_processed_packet(&packet, path, &mut publisher);

    let new_q = member(&m, q);
    let (p, qq) = (pn as i128, q as i128);
    // C08: the set of packet numbers to acknowledge only grows by the packet just processed
    assert!(am_processed_subset_at(p, qq, old_q, new_q), "C08/ack_manager.on_processed_packet/ranges_subset_of_old_plus_pn");
    // ... and the packet is recorded, unless the set is full and the packet is older than everything stored
    let too_old_for_full_set = old_len == LIMIT as usize && old_min.map_or(false, |mn| pn + 1 < mn);
    assert!(member(&m, pn) == !too_old_for_full_set, "C08/ack_manager.on_processed_packet/pn_recorded_unless_older_than_full_set");
    assert!(m.ack_ranges.interval_len() <= LIMIT as usize, "C08/ack_manager.on_processed_packet/ranges_within_limit");
    // prompt acknowledgement (RFC 9000 13.2.1): afterwards an ACK is either forced or the delayed-ACK timer is armed and
    // fires no later than now + max_ack_delay
    let active = m.transmission_state.is_active();
    let deadline_ok = match m.ack_delay_timer.next_expiration() {
        Some(t) => t <= now + m.ack_settings.max_ack_delay,
        None => false,
    };
    assert!(!eliciting || active || deadline_ok, "C08/ack_manager.on_processed_packet/eliciting_packet_acked_within_max_ack_delay");
    assert!(!m.ack_delay_timer.is_armed() || deadline_ok, "C08/ack_manager.on_processed_packet/timer_never_later_than_max_ack_delay");
    // RFC 9000 13.2.1: "an endpoint SHOULD immediately acknowledge ... when the packet has a packet number less than another
    // ack-eliciting packet that has been received" / "when a gap exists"; 13.2.1 CE-marked packets
    let in_order = match old_max {
        None => true,
        Some(mx) => pn == mx + 1,
    };
    assert!(!(eliciting && !in_order) || active, "C08/ack_manager.on_processed_packet/out_of_order_acked_immediately");
    let in_order_known = match old_max {
        None => true,
        Some(mx) => pn == mx + 1 || mx == MAXV,
    };
    assert!(!(eliciting && !in_order_known) || active, "C08/ack_manager.on_processed_packet/out_of_order_acked_immediately#outside-known");
    assert!(!(eliciting && ecn.congestion_experienced()) || active, "C08/ack_manager.on_processed_packet/ce_marked_acked_immediately");
    assert!(!was_active || active, "C08/ack_manager.on_processed_packet/stays_active");
    // a transmission is possible afterwards: the state is never Disabled while ranges are stored
    assert!(m.transmission_state != AckTransmissionState::Disabled, "C08/ack_manager.on_processed_packet/not_disabled_with_ranges");
    // frame: ECN counters count this datagram's codepoint, receive time of the largest follows the largest
    let mut want = old_ecn;
    want.increment(ecn);
    assert!(m.ecn_counts == want, "C08/ack_manager.on_processed_packet/ecn_counted_once");
    let is_largest = old_max.map_or(true, |mx| pn > mx);
    assert!(!is_largest || m.largest_received_packet_number_at == Some(now), "C08/ack_manager.on_processed_packet/largest_receive_time_recorded");
    assert!(is_largest || old_max == Some(MAXV) || m.largest_received_packet_number_at == old_at, "C08/ack_manager.on_processed_packet/receive_time_kept_for_older");

    kani::cover!(eliciting && !active && deadline_ok, "reach:delayed_ack_armed");
    kani::cover!(eliciting && active && in_order && !was_active, "reach:activated_in_order");
    kani::cover!(!eliciting && !active, "reach:non_eliciting");
    kani::cover!(true, "reach:end");
}

//@ harness props=C08 tier=thorough level=bounded timeout=900 bound="K=0 stored ranges, ack_ranges_limit 2; packet number, witness, ECN, elicitation, timer, counters, state symbolic; times within one second"
//@ fn AckManager::on_processed_packet
//@ fn AckManager::new
#[kani::proof]
#[kani::unwind(6)]
fn vq_c08_ack_manager_on_processed_packet_k0() {
    // obligations asserted in processed_packet_step(): "C08/ack_manager.on_processed_packet/ranges_subset_of_old_plus_pn"
    // "C08/ack_manager.on_processed_packet/pn_recorded_unless_older_than_full_set" "C08/ack_manager.on_processed_packet/ranges_within_limit"
    // "C08/ack_manager.on_processed_packet/eliciting_packet_acked_within_max_ack_delay" "C08/ack_manager.on_processed_packet/timer_never_later_than_max_ack_delay"
    // "C08/ack_manager.on_processed_packet/out_of_order_acked_immediately" "C08/ack_manager.on_processed_packet/out_of_order_acked_immediately#outside-known"
    // "C08/ack_manager.on_processed_packet/ce_marked_acked_immediately" "C08/ack_manager.on_processed_packet/stays_active"
    // "C08/ack_manager.on_processed_packet/not_disabled_with_ranges" "C08/ack_manager.on_processed_packet/ecn_counted_once"
    // "C08/ack_manager.on_processed_packet/largest_receive_time_recorded" "C08/ack_manager.on_processed_packet/receive_time_kept_for_older"
    processed_packet_step(0);
}

//@ harness props=C08 tier=thorough level=bounded timeout=1700 bound="K=1 stored range, ack_ranges_limit 2; packet number, witness, ECN, elicitation, timer, counters, state symbolic; times within one second"
//@ fn AckManager::on_processed_packet
#[kani::proof]
#[kani::unwind(6)]
fn vq_c08_ack_manager_on_processed_packet_k1() {
    // obligations asserted in processed_packet_step(): "C08/ack_manager.on_processed_packet/ranges_subset_of_old_plus_pn"
    // "C08/ack_manager.on_processed_packet/pn_recorded_unless_older_than_full_set" "C08/ack_manager.on_processed_packet/ranges_within_limit"
    // "C08/ack_manager.on_processed_packet/eliciting_packet_acked_within_max_ack_delay" "C08/ack_manager.on_processed_packet/timer_never_later_than_max_ack_delay"
    // "C08/ack_manager.on_processed_packet/out_of_order_acked_immediately" "C08/ack_manager.on_processed_packet/out_of_order_acked_immediately#outside-known"
    // "C08/ack_manager.on_processed_packet/ce_marked_acked_immediately" "C08/ack_manager.on_processed_packet/stays_active"
    // "C08/ack_manager.on_processed_packet/not_disabled_with_ranges" "C08/ack_manager.on_processed_packet/ecn_counted_once"
    // "C08/ack_manager.on_processed_packet/largest_receive_time_recorded" "C08/ack_manager.on_processed_packet/receive_time_kept_for_older"
    processed_packet_step(1);
    kani::cover!(true, "reach:k1");
}

// ---- on_transmit: the frame handed to the writer ------------------------------------------------------------------
/// stack-only write context: records the ACK frame instead of encoding it
struct AckRecorder {
    now: Timestamp,
    constraint: transmission::Constraint,
    mode: transmission::Mode,
    accept: bool,
    frames: usize,
    n_ranges: usize,
    ranges: [(u64, u64); 3],
    ack_delay: u64,
    has_ecn: bool,
}

impl WriteContext for AckRecorder {
    fn current_time(&self) -> Timestamp {
        self.now
    }
    fn transmission_constraint(&self) -> transmission::Constraint {
        self.constraint
    }
    fn transmission_mode(&self) -> transmission::Mode {
        self.mode
    }
    fn remaining_capacity(&self) -> usize {
        1200
    }
    fn write_ack_frame<A: AckRangesTrait>(&mut self, ack_frame: &Ack<A>) -> Option<PacketNumber> {
        if !self.accept {
            return None;
        }
        self.frames += 1;
        self.ack_delay = ack_frame.ack_delay.as_u64();
        self.has_ecn = ack_frame.ecn_counts.is_some();
        let mut it = ack_frame.ack_ranges.ack_ranges();
        let mut i = 0;
        while i < 3 {
            if let Some(r) = it.next() {
                self.ranges[i] = (r.start().as_u64(), r.end().as_u64());
                self.n_ranges += 1;
            }
            i += 1;
        }
        Some(self.packet_number())
    }
    fn write_frame<Frame>(&mut self, _frame: &Frame) -> Option<PacketNumber>
    where
        Frame: EncoderValue + FrameTrait,
        for<'f> &'f Frame: event::IntoEvent<event::builder::Frame>,
    {
        None
    }
    fn write_fitted_frame<Frame>(&mut self, _frame: &Frame) -> PacketNumber
    where
        Frame: EncoderValue + FrameTrait,
        for<'f> &'f Frame: event::IntoEvent<event::builder::Frame>,
    {
        self.packet_number()
    }
    fn write_frame_forced<Frame>(&mut self, _frame: &Frame) -> Option<PacketNumber>
    where
        Frame: EncoderValue + FrameTrait,
        for<'f> &'f Frame: event::IntoEvent<event::builder::Frame>,
    {
        None
    }
    fn ack_elicitation(&self) -> AckElicitation {
        AckElicitation::NonEliciting
    }
    fn packet_number(&self) -> PacketNumber {
        pn_of(7)
    }
    fn local_endpoint_type(&self) -> endpoint::Type {
        endpoint::Type::Server
    }
    fn header_len(&self) -> usize {
        0
    }
    fn tag_len(&self) -> usize {
        0
    }
}

fn recorded(w: &AckRecorder, q: u64) -> bool {
    let mut found = false;
    let mut i = 0;
    while i < 3 {
        if i < w.n_ranges {
            found |= w.ranges[i].0 <= q && q <= w.ranges[i].1;
        }
        i += 1;
    }
    found
}

fn transmit_step(k: usize) {
    let now = ts(10, any_nanos());
    let mut m = any_manager(k, now);
    let q: u64 = kani::any();
    kani::assume(q <= MAXV);
    let c: u8 = kani::any();
    let md: u8 = kani::any();
    kani::assume(c < 4 && md < 4);
    let mut w = AckRecorder {
        now,
        constraint: match c {
            0 => transmission::Constraint::None,
            1 => transmission::Constraint::RetransmissionOnly,
            2 => transmission::Constraint::CongestionLimited,
            _ => transmission::Constraint::AmplificationLimited,
        },
        mode: match md {
            0 => transmission::Mode::LossRecoveryProbing,
            1 => transmission::Mode::MtuProbing,
            2 => transmission::Mode::PathValidationOnly,
            _ => transmission::Mode::Normal,
        },
        accept: kani::any(),
        frames: 0,
        n_ranges: 0,
        ranges: [(0, 0); 3],
        ack_delay: 0,
        has_ecn: false,
    };
    let old_q = member(&m, q);
    let old_len = m.ack_ranges.interval_len();
    let old_state = m.transmission_state;
    let at = m.largest_received_packet_number_at;

    let wrote = m.on_transmit(&mut w);

    let new_q = member(&m, q);
    let qq = q as i128;
    assert!(wrote == (w.frames == 1) && w.frames <= 1, "C08/ack_manager.on_transmit/true_iff_one_ack_frame_written");
    // the frame carries exactly the stored ranges: an ACK names only packets that were processed
    assert!(!wrote || am_frame_is_ranges_at(qq, old_q, recorded(&w, q)), "C08/ack_manager.on_transmit/frame_ranges_are_the_stored_ranges");
    assert!(!wrote || w.n_ranges == old_len, "C08/ack_manager.on_transmit/frame_range_count");
    assert!(am_transmit_ranges_unchanged_at(qq, old_q, new_q) && m.transmission_state == old_state, "C08/ack_manager.on_transmit/state_unchanged_until_complete");
    // nothing is written without anything to acknowledge; a forced (Active) ACK is always attempted
    assert!(!wrote || old_len > 0, "C08/ack_manager.on_transmit/no_ack_without_ranges");
    assert!(!(old_state.is_active() && old_len > 0 && w.accept) || wrote, "C08/ack_manager.on_transmit/active_state_transmits");
    // RFC 9000 19.3: ACK Delay = time since the largest acknowledged packet was received, in units of 2^ack_delay_exponent us
    // (independent of Settings::encode_ack_delay: microseconds shifted by the exponent; durations here are < 2 s)
    let want_delay = match at {
        Some(t) => {
            let d = now.saturating_duration_since(t);
            (d.as_secs() * 1_000_000 + (d.subsec_nanos() / 1000) as u64) >> m.ack_settings.ack_delay_exponent
        }
        None => 0,
    };
    assert!(!wrote || w.ack_delay == want_delay, "C08/ack_manager.on_transmit/ack_delay_is_time_since_largest_received");
    kani::cover!(wrote, "reach:ack_written");
    kani::cover!(!wrote && old_len > 0, "reach:not_written_with_ranges");
    kani::cover!(true, "reach:end");
}

//@ harness props=C08 tier=thorough level=bounded timeout=900 bound="K=1 stored range, ack_ranges_limit 2; values, witness, constraint, mode, state symbolic; times within two seconds"
//@ fn AckManager::on_transmit
//@ fn AckManager::ack_delay
//@ fn AckTransmissionState::should_transmit
#[kani::proof]
#[kani::unwind(6)]
fn vq_c08_ack_manager_on_transmit_k1() {
    // obligations asserted in transmit_step(): "C08/ack_manager.on_transmit/true_iff_one_ack_frame_written"
    // "C08/ack_manager.on_transmit/frame_ranges_are_the_stored_ranges" "C08/ack_manager.on_transmit/frame_range_count"
    // "C08/ack_manager.on_transmit/state_unchanged_until_complete" "C08/ack_manager.on_transmit/no_ack_without_ranges"
    // "C08/ack_manager.on_transmit/active_state_transmits" "C08/ack_manager.on_transmit/ack_delay_is_time_since_largest_received"
    transmit_step(1);
}

//@ harness props=C08 tier=thorough level=bounded timeout=1700 bound="K=2 stored ranges, ack_ranges_limit 2; values, witness, constraint, mode, state symbolic; times within two seconds"
//@ fn AckManager::on_transmit
//@ fn AckManager::ack_delay
//@ fn AckTransmissionState::should_transmit
#[kani::proof]
#[kani::unwind(6)]
fn vq_c08_ack_manager_on_transmit_k2() {
    // obligations asserted in transmit_step(): "C08/ack_manager.on_transmit/true_iff_one_ack_frame_written"
    // "C08/ack_manager.on_transmit/frame_ranges_are_the_stored_ranges" "C08/ack_manager.on_transmit/frame_range_count"
    // "C08/ack_manager.on_transmit/state_unchanged_until_complete" "C08/ack_manager.on_transmit/no_ack_without_ranges"
    // "C08/ack_manager.on_transmit/active_state_transmits" "C08/ack_manager.on_transmit/ack_delay_is_time_since_largest_received"
    transmit_step(2);
    kani::cover!(true, "reach:k2");
}

// ---- on_packet_ack: an ACK of one of our ACK-carrying packets only removes ranges -----------------------------------------
fn packet_ack_step(k: usize) {
    let now = ts(10, any_nanos());
    let mut m = any_manager(k, now);
    // at most two tracked ACK-eliciting transmissions (stable / latest), as AckManager::on_transmit_complete records them
    let sent: [u64; 2] = kani::any();
    let acked_upto: [u64; 2] = kani::any();
    let n_tx: u8 = kani::any();
    kani::assume(n_tx <= 2 && sent[0] < sent[1] && sent[1] <= MAXV && acked_upto[0] <= acked_upto[1] && acked_upto[1] <= MAXV);
    let mut i = 0;
    while i < 2 {
        if i < n_tx as usize {
            m.ack_eliciting_transmissions.on_transmit(ack::Transmission {
                sent_in_packet: pn_of(sent[i]),
                largest_received_packet_number_acked: pn_of(acked_upto[i]),
            });
        }
        i += 1;
    }
    let lo: u64 = kani::any();
    let hi: u64 = kani::any();
    let q: u64 = kani::any();
    kani::assume(lo <= hi && hi <= MAXV && q <= MAXV);
    let old_q = member(&m, q);
    let old_state = m.transmission_state;

    m.on_packet_ack(now, &PacketNumberRange::new(pn_of(lo), pn_of(hi)));

    let new_q = member(&m, q);
    assert!(am_ack_only_removes_at(q as i128, old_q, new_q), "C08/ack_manager.on_packet_ack/only_removes");
    // exactly: if the peer acknowledged a packet that carried an ACK up to L, everything <= L stops being acknowledged
    // (RFC 9000 13.2.4); the latest such transmission wins
    let hit1 = n_tx == 2 && lo <= sent[1] && sent[1] <= hi;
    let hit0 = n_tx >= 1 && lo <= sent[0] && sent[0] <= hi;
    let cut = if hit1 {
        Some(acked_upto[1])
    } else if n_tx == 1 && hit0 {
        Some(acked_upto[0])
    } else if hit0 {
        Some(acked_upto[0])
    } else {
        None
    };
    let want = match cut {
        Some(l) => old_q && q > l,
        None => old_q,
    };
    assert!(new_q == want, "C08/ack_manager.on_packet_ack/removes_exactly_up_to_largest_acked_then");
    assert!(m.transmission_state == old_state, "C08/ack_manager.on_packet_ack/transmission_state_untouched");
    kani::cover!(cut.is_some() && old_q && !new_q, "reach:removed");
    kani::cover!(cut.is_none(), "reach:not_ours");
    kani::cover!(true, "reach:end");
}

//@ harness props=C08 tier=thorough level=bounded timeout=900 bound="K=1 stored range, <= 2 tracked ACK transmissions; all packet numbers and the witness symbolic"
//@ fn AckManager::on_packet_ack
//@ fn ack::transmission::Set::on_update
#[kani::proof]
#[kani::unwind(6)]
fn vq_c08_ack_manager_on_packet_ack_k1() {
    // obligations asserted in packet_ack_step(): "C08/ack_manager.on_packet_ack/only_removes"
    // "C08/ack_manager.on_packet_ack/removes_exactly_up_to_largest_acked_then" "C08/ack_manager.on_packet_ack/transmission_state_untouched"
    packet_ack_step(1);
}

//@ harness props=C08 tier=thorough level=bounded timeout=1700 bound="K=2 stored ranges, <= 2 tracked ACK transmissions; all packet numbers and the witness symbolic"
//@ fn AckManager::on_packet_ack
//@ fn ack::transmission::Set::on_update
#[kani::proof]
#[kani::unwind(6)]
fn vq_c08_ack_manager_on_packet_ack_k2() {
    // obligations asserted in packet_ack_step(): "C08/ack_manager.on_packet_ack/only_removes"
    // "C08/ack_manager.on_packet_ack/removes_exactly_up_to_largest_acked_then" "C08/ack_manager.on_packet_ack/transmission_state_untouched"
    packet_ack_step(2);
    kani::cover!(true, "reach:k2");
}
