use super::*;
use s2n_codec::{Encoder, EncoderBuffer, EncoderValue};
use s2n_quic_core::{
    endpoint, event::{self, IntoEvent}, frame::{ack_elicitation::AckElicitation, FrameTrait, MaxData},
    packet::number::{PacketNumber, PacketNumberSpace}, stream::StreamId,
    time::{clock::testing as time, Timestamp}, transmission, varint::VarInt,
};

/// minimal stack-only transmission::Writer: one frame, 32-byte array
struct MiniWriter { buf: [u8; 32], len: usize, frames: usize, now: Timestamp, cap: usize }
impl transmission::Writer for MiniWriter {
    fn current_time(&self) -> Timestamp { self.now }
    fn transmission_constraint(&self) -> transmission::Constraint { transmission::Constraint::None }
    fn transmission_mode(&self) -> transmission::Mode { transmission::Mode::Normal }
    fn remaining_capacity(&self) -> usize { self.cap - self.len }
    fn write_frame<Frame>(&mut self, frame: &Frame) -> Option<PacketNumber>
    where Frame: EncoderValue + FrameTrait, for<'f> &'f Frame: IntoEvent<event::builder::Frame> {
        let size = frame.encoding_size();
        if size > self.cap - self.len { return None; }
        let mut enc = EncoderBuffer::new(&mut self.buf[self.len..]);
        enc.encode(frame);
        self.len += size;
        self.frames += 1;
        Some(self.packet_number())
    }
    fn write_fitted_frame<Frame>(&mut self, frame: &Frame) -> PacketNumber
    where Frame: EncoderValue + FrameTrait, for<'f> &'f Frame: IntoEvent<event::builder::Frame> {
        self.write_frame(frame).unwrap()
    }
    fn write_frame_forced<Frame>(&mut self, frame: &Frame) -> Option<PacketNumber>
    where Frame: EncoderValue + FrameTrait, for<'f> &'f Frame: IntoEvent<event::builder::Frame> {
        self.write_frame(frame)
    }
    fn ack_elicitation(&self) -> AckElicitation { AckElicitation::NonEliciting }
    fn packet_number(&self) -> PacketNumber { PacketNumberSpace::ApplicationData.new_packet_number(VarInt::from_u8(7)) }
    fn local_endpoint_type(&self) -> endpoint::Type { endpoint::Type::Server }
    fn header_len(&self) -> usize { 0 }
    fn tag_len(&self) -> usize { 0 }
}

#[derive(Default, Debug)]
struct W;
impl ValueToFrameWriter<VarInt> for W {
    fn write_value_as_frame<C: WriteContext>(&self, value: VarInt, _s: StreamId, context: &mut C) -> Option<PacketNumber> {
        context.write_frame(&MaxData { maximum_data: value })
    }
}

#[kani::proof]
#[kani::unwind(12)]
fn ivs_update_then_transmit() {
    let acked: u64 = kani::any();
    let latest: u64 = kani::any();
    let thr: u64 = kani::any();
    let max = s2n_quic_core::varint::MAX_VARINT_VALUE;
    kani::assume(acked <= latest && latest <= max && thr <= max);
    let mut sync: IncrementalValueSync<VarInt, W> = IncrementalValueSync::new(
        VarInt::new(latest).unwrap(), VarInt::new(acked).unwrap(), VarInt::new(thr).unwrap());
    let v: u64 = kani::any();
    kani::assume(v >= latest && v <= max);
    sync.update_latest_value(VarInt::new(v).unwrap());
    assert!(sync.latest_value().as_u64() == v, "C04/ivs.update/latest_is_value");

    let mut context = MiniWriter { buf: [0; 32], len: 0, frames: 0, now: time::now(), cap: 32 };
    let had_interest = {
        use transmission::interest::Provider;
        sync.has_transmission_interest()
    };
    let r = sync.on_transmit(StreamId::from_varint(VarInt::from_u32(0)), &mut context);
    assert!(r.is_ok());
    if had_interest {
        assert!(sync.is_inflight(), "C04/ivs.transmit/inflight_after_write");
        assert!(context.frames == 1);
        // independent decode: tag 0x10 then varint
        assert!(context.buf[0] == 0x10, "C04/ivs.transmit/frame_is_max_data");
        let (val, _) = s2n_codec::DecoderBuffer::new(&context.buf[1..context.len]).decode::<VarInt>().unwrap();
        assert!(val.as_u64() == v, "C04/ivs.transmit/frame_value_is_latest");
    } else {
        assert!(context.frames == 0);
    }
    kani::cover!(had_interest, "reach:transmit");
    kani::cover!(!had_interest, "reach:no_interest");
}
