#[cfg(all(kani, feature = "testing"))]
mod verif_kani {
    use super::*;
    #[kani::proof]
    #[kani::unwind(4)]
    fn amplification_step() {
        let mut path = testing::helper_path_server();
        let rx: u16 = kani::any();
        let _ = path.on_bytes_received(rx as usize);
        if let State::AmplificationLimited { tx_allowance } = path.state {
            assert!(*tx_allowance as u64 == 3 * rx as u64); assert!(rx != 777);
        }
        let tx: u16 = kani::any();
        kani::assume(tx > 0);
        if !path.at_amplification_limit() {
            path.on_bytes_transmitted(tx as usize);
        }
    }
}
