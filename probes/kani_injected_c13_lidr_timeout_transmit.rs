// NOT DISCHARGED -- kept as a record (see contracts/STRENGTH-c13.md, "attempts").  These are the harnesses for
// LocalIdRegistry::on_timeout and LocalIdRegistry::on_transmit; they belong at the end of
// contracts/kani/transport/lidr.rs (they use its builder, view, inv, stubs) and compile there.
//   on_timeout  K=1: 9.3 GB after 17 min with a full-range `now`, 11.1 GB after 17 min with now <= 2^22 us; killed.
//                    Suspect: SmallVec::retain (swap at a symbolic index into the union-backed inline array) inside
//                    unregister_expired_ids, under the Mutex guard, followed by two check_consistency() rounds.
//   on_transmit K=1: 10.7 GB after 9 min with symbolic varint lengths; with sequence numbers < 64 (1-byte varints)
//                    symbolic execution finishes but the SAT call runs > 550 s and the run ends with status Error
//                    (memory cap) -- the byte-level frame encoder plus the independent parser are the cost.
//                    Next step: a recording `Encoder` that keeps each encoded field in its own fixed array instead
//                    of one byte buffer with data-dependent offsets.
// ================================================================================================
// on_timeout
// ================================================================================================
fn elapsed(t: Timestamp, now: Timestamp) -> bool {
    // Timestamp::has_elapsed: K_GRANULARITY (1 ms) rounding
    ts_micros(t) < ts_micros(now) + GRANULARITY_US
}
// Argument range: `now` <= 2^22 us.  The retirement/removal times of the registered ids are arbitrary, so every
// ordering between them and `now` is covered; `now` itself only enters `now + EXPIRATION_BUFFER`, a
// Duration::from_micros / as_micros round trip (64-bit divisions) that CBMC cannot reason about for a full-range
// value (9 GB, no result after 17 min).
fn timeout_body(n: usize) {
    let mut reg = any_lidr(n, true);
    let old = view(&reg);
    let now_us: u64 = kani::any();
    kani::assume(now_us >= 1 && now_us <= (1 << 22));
    let now = ts(now_us);

    reg.on_timeout(now);
    let new = view(&reg);

    let mut j = 0; // position in the new registry
    let mut contrib: i128 = 0;
    let mut removed: i128 = 0;
    let mut newly_retired: i128 = 0;
    let mut i = 0;
    while i < K_MAX {
        if i < old.n {
            let o = old.at(i);
            let counted = o.st != 4 && o.st != 5;
            let ready = counted && o.rt.is_some_and(|t| elapsed(t, now));
            let expired = !counted && o.st_time.is_some_and(|t| elapsed(t, now));
            if expired {
                removed += 1;
            } else {
                assert!(j < new.n, "C13/lidr.on_timeout/unexpired_entries_are_kept");
                if j < new.n {
                    let e = new.at(j);
                    assert!(lid_timeout_entry_post(old.abs(i), ready, new.abs(j)), "C13/lidr.on_timeout/retire_ready_ids_become_pending_retirement_confirmation");
                    assert!(snap_eq_but_status(&o, &e), "C13/lidr.on_timeout/kept_entry_other_fields_unchanged");
                    if !ready {
                        assert!(snap_eq(&o, &e), "C13/lidr.on_timeout/frame_not_ready_entries");
                    }
                }
                j += 1;
            }
            if ready {
                newly_retired += 1;
            }
            contrib = imax2(contrib, lid_timeout_rpt_of(old.abs(i), ready));
        }
        i += 1;
    }
    assert!(j == new.n, "C13/lidr.on_timeout/exactly_the_expired_entries_are_removed");
    assert!(lidr_timeout_counters(old.s, new.s, contrib, removed, newly_retired), "C13/lidr.on_timeout/counters_and_retire_prior_to");
    assert!(new.s.retire_prior_to <= new.s.next_seq, "C13/lidr.on_timeout/retire_prior_to_le_next_sequence_number");
    let lg = log();
    assert!(lg.ins_calls == 0 && lg.rem_calls as i128 == removed && lg.rem_missing == 0, "C13/lidr.on_timeout/map_remove_once_per_expired_id");
    assert!(map_is_registered_ids(&new), "C13/lidr.on_timeout/map_holds_exactly_registered_ids");
    assert!(new.rotate == old.rotate, "C13/lidr.on_timeout/frame_rotate_flag");
    assert!(inv(&new, true), "C13/lidr.on_timeout/inv_preserved");

    kani::cover!(removed > 0, "reach:expired_id_removed");
    kani::cover!(newly_retired > 0, "reach:id_retired");
    kani::cover!(new.s.retire_prior_to > old.s.retire_prior_to, "reach:retire_prior_to_advanced");
    kani::cover!(removed == 0 && newly_retired == 0, "reach:nothing_due");
    kani::cover!(true, "reach:end");
    finish(reg);
}

// ================================================================================================
// on_transmit: NEW_CONNECTION_ID frames (RFC 9000 19.15)
// ================================================================================================
use s2n_codec::{Encoder, EncoderBuffer, EncoderValue};
use s2n_quic_core::{
    endpoint,
    event::{self, IntoEvent},
    frame::{ack_elicitation::AckElicitation, FrameTrait},
};

const FRAME_CAP: usize = 40; // 1 + 8 + 8 + 1 + 4 + 16 = 38 bytes at most for a 4-byte id
/// minimal stack-only transmission::Writer (probes/kani_injected_ivs_miniwriter.rs): keeps the bytes of up
/// to K_MAX frames, accepts `room` frames and then reports "no capacity"
struct MiniWriter {
    frames: [[u8; FRAME_CAP]; K_MAX],
    lens: [usize; K_MAX],
    written: usize,
    room: usize,
    constraint: transmission::Constraint,
    now: Timestamp,
    pn: PacketNumber,
}
impl transmission::Writer for MiniWriter {
    fn current_time(&self) -> Timestamp {
        self.now
    }
    fn transmission_constraint(&self) -> transmission::Constraint {
        self.constraint
    }
    fn transmission_mode(&self) -> transmission::Mode {
        transmission::Mode::Normal
    }
    fn remaining_capacity(&self) -> usize {
        (self.room - self.written) * FRAME_CAP
    }
    fn write_frame<Frame>(&mut self, frame: &Frame) -> Option<PacketNumber>
    where
        Frame: EncoderValue + FrameTrait,
        for<'f> &'f Frame: IntoEvent<event::builder::Frame>,
    {
        if self.written >= self.room {
            return None;
        }
        let size = frame.encoding_size();
        assert!(size <= FRAME_CAP);
        let mut enc = EncoderBuffer::new(&mut self.frames[self.written]);
        enc.encode(frame);
        self.lens[self.written] = size;
        self.written += 1;
        Some(self.pn)
    }
    fn write_fitted_frame<Frame>(&mut self, frame: &Frame) -> PacketNumber
    where
        Frame: EncoderValue + FrameTrait,
        for<'f> &'f Frame: IntoEvent<event::builder::Frame>,
    {
        self.write_frame(frame).unwrap()
    }
    fn write_frame_forced<Frame>(&mut self, frame: &Frame) -> Option<PacketNumber>
    where
        Frame: EncoderValue + FrameTrait,
        for<'f> &'f Frame: IntoEvent<event::builder::Frame>,
    {
        self.write_frame(frame)
    }
    fn ack_elicitation(&self) -> AckElicitation {
        AckElicitation::Eliciting
    }
    fn packet_number(&self) -> PacketNumber {
        self.pn
    }
    fn local_endpoint_type(&self) -> endpoint::Type {
        endpoint::Type::Server
    }
    fn header_len(&self) -> usize {
        0
    }
    fn tag_len(&self) -> usize {
        0
    }
}

/// Independent RFC 9000 16 variable-length integer reader (loop-free): (value, encoded length)
fn rd_varint(b: &[u8; FRAME_CAP], at: usize) -> (i128, usize) {
    let first = b[at];
    let v0 = (first & 0x3f) as i128;
    match first >> 6 {
        0 => (v0, 1),
        1 => (v0 * 256 + b[at + 1] as i128, 2),
        2 => (((v0 * 256 + b[at + 1] as i128) * 256 + b[at + 2] as i128) * 256 + b[at + 3] as i128, 4),
        _ => {
            let mut v = v0;
            v = v * 256 + b[at + 1] as i128;
            v = v * 256 + b[at + 2] as i128;
            v = v * 256 + b[at + 3] as i128;
            v = v * 256 + b[at + 4] as i128;
            v = v * 256 + b[at + 5] as i128;
            v = v * 256 + b[at + 6] as i128;
            v = v * 256 + b[at + 7] as i128;
            (v, 8)
        }
    }
}
/// Independent RFC 9000 19.15 reader of one NEW_CONNECTION_ID frame carrying a 4-byte connection id
fn rd_ncid(b: &[u8; FRAME_CAP], len: usize) -> Option<NcidFrame> {
    if b[0] != 0x18 {
        return None;
    }
    let (seq, l1) = rd_varint(b, 1);
    let (rpt, l2) = rd_varint(b, 1 + l1);
    let at = 1 + l1 + l2;
    let id_len = b[at] as usize;
    if id_len != 4 || at + 1 + 4 + 16 != len {
        return None;
    }
    let id = [b[at + 1], b[at + 2], b[at + 3], b[at + 4]];
    let t = at + 5;
    let tok: [u8; 16] = [
        b[t], b[t + 1], b[t + 2], b[t + 3], b[t + 4], b[t + 5], b[t + 6], b[t + 7], b[t + 8], b[t + 9], b[t + 10], b[t + 11], b[t + 12],
        b[t + 13], b[t + 14], b[t + 15],
    ];
    let tk = stateless_reset::Token::from(tok);
    Some(NcidFrame { seq, retire_prior_to: rpt, id_len: 4, id_a: be10(&id, 0), id_b: 0, tok_a: tok_a(&tk), tok_b: tok_b(&tk) })
}

/// `discipline`: whether the state satisfies the conditional retire-prior-to discipline
/// Argument range: next_sequence_number <= 63, so that sequence number and retire_prior_to are 1-byte varints and
/// every offset in the encoded frame is concrete (with symbolic varint lengths CBMC needs > 10 GB).
fn transmit_body(n: usize, discipline: bool) {
    let mut reg = any_lidr(n, discipline);
    let old = view(&reg);
    kani::assume(old.s.next_seq <= 63);
    let c: u8 = kani::any();
    kani::assume(c < 4);
    let constraint = match c {
        0 => transmission::Constraint::None,
        1 => transmission::Constraint::RetransmissionOnly,
        2 => transmission::Constraint::CongestionLimited,
        _ => transmission::Constraint::AmplificationLimited,
    };
    let room: usize = kani::any();
    kani::assume(room <= K_MAX);
    let packet_number = pn(kani::any());
    let mut w = MiniWriter { frames: [[0; FRAME_CAP]; K_MAX], lens: [0; K_MAX], written: 0, room, constraint, now: any_ts(), pn: packet_number };

    reg.on_transmit(&mut w);
    let new = view(&reg);

    let mut f = 0; // frames accounted for
    let mut i = 0;
    while i < K_MAX {
        if i < old.n {
            let o = old.abs(i);
            // independent reading of transmission::Interest::can_transmit
            let wants = (o.status == lst_pending_issuance() && c == 0) || (o.status == lst_pending_reissue() && c <= 1);
            let written = wants && f < room;
            assert!(lid_transmit_entry_post(o, written, new.abs(i)), "C13/lidr.on_transmit/written_ids_become_pending_acknowledgement");
            assert!(snap_eq_but_status(&old.at(i), &new.at(i)), "C13/lidr.on_transmit/entry_other_fields_unchanged");
            if written {
                assert!(new.at(i).st_pn == Some(packet_number), "C13/lidr.on_transmit/tracks_packet_number_of_frame");
                assert!(f < w.written, "C13/lidr.on_transmit/one_frame_per_id");
                if f < w.written {
                    let parsed = rd_ncid(&w.frames[f], w.lens[f]);
                    assert!(parsed.is_some(), "C13/lidr.on_transmit/frame_is_wellformed_new_connection_id");
                    if let Some(fr) = parsed {
                        assert!(ncid_frame_is_entry(fr, o), "C13/lidr.on_transmit/frame_carries_sequence_number_id_and_token_of_entry");
                        assert!(ncid_frame_rpt_is_registry(fr, old.s), "C13/lidr.on_transmit/frame_retire_prior_to_is_registry_value");
                        assert!(ncid_frame_rpt_le_issued(fr, old.s), "C13/lidr.on_transmit/frame_retires_only_issued_ids");
                        // RFC 9000 19.15: Retire Prior To <= Sequence Number, claimed for states that satisfy the
                        // retire-prior-to discipline (caller obligation: monotone retirement times)
                        assert!(!discipline || ncid_frame_rpt_le_seq(fr), "C13/lidr.on_transmit/frame_retire_prior_to_le_sequence_number");
                        // FINDING (see STRENGTH-c13.md / report): without that caller obligation the public API can
                        // reach a state in which the frame asks the peer to retire the very id it announces.
                        // (both obligations are trivially true in the harnesses that assume the discipline)
                        assert!(
                            discipline || ncid_frame_rpt_le_seq(fr),
                            "C13/lidr.on_transmit/frame_retire_prior_to_le_sequence_number_without_caller_obligation"
                        );
                        // residual: outside the class of states violating the discipline the claim holds
                        assert!(
                            discipline || !inv(&old, true) || ncid_frame_rpt_le_seq(fr),
                            "C13/lidr.on_transmit/frame_retire_prior_to_le_sequence_number_without_caller_obligation#outside-known"
                        );
                    }
                }
                f += 1;
            } else {
                assert!(snap_eq(&old.at(i), &new.at(i)), "C13/lidr.on_transmit/frame_other_entries");
            }
        }
        i += 1;
    }
    assert!(f == w.written, "C13/lidr.on_transmit/no_other_frames");
    assert!(lidr_unchanged(old.s, new.s) && new.n == old.n && new.rotate == old.rotate, "C13/lidr.on_transmit/frame_counters");
    let lg = log();
    assert!(lg.ins_calls == 0 && lg.rem_calls == 0, "C13/lidr.on_transmit/map_untouched");
    assert!(inv(&new, discipline), "C13/lidr.on_transmit/inv_preserved");

    kani::cover!(w.written == 1, "reach:one_frame");
    kani::cover!(w.written > 0 && c == 1, "reach:retransmission_only");
    kani::cover!(w.written == 0 && room == 0, "reach:no_capacity");
    kani::cover!(true, "reach:end");
    finish(reg);
}


// (harness) props=C13 tier=thorough level=bounded bound="K=1 registered id before the call, 4-byte concrete distinct id values; shared hash maps replaced by contract stubs; now <= 2^22 us" timeout=2400 mem=12
// obligations (asserted in timeout_body):
//   "C13/lidr.on_timeout/counters_and_retire_prior_to"
//   "C13/lidr.on_timeout/exactly_the_expired_entries_are_removed"
//   "C13/lidr.on_timeout/frame_not_ready_entries"
//   "C13/lidr.on_timeout/frame_rotate_flag"
//   "C13/lidr.on_timeout/inv_preserved"
//   "C13/lidr.on_timeout/kept_entry_other_fields_unchanged"
//   "C13/lidr.on_timeout/map_holds_exactly_registered_ids"
//   "C13/lidr.on_timeout/map_remove_once_per_expired_id"
//   "C13/lidr.on_timeout/retire_prior_to_le_next_sequence_number"
//   "C13/lidr.on_timeout/retire_ready_ids_become_pending_retirement_confirmation"
//   "C13/lidr.on_timeout/unexpired_entries_are_kept"
// (fn) LocalIdRegistry::on_timeout
#[kani::proof]
#[kani::unwind(6)]
#[kani::stub(crate::connection::connection_id_mapper::LocalIdMap::try_insert, stub_local_try_insert)]
#[kani::stub(crate::connection::connection_id_mapper::LocalIdMap::remove, stub_local_remove)]
#[kani::stub(crate::connection::connection_id_mapper::InitialIdMap::remove, stub_initial_remove)]
#[kani::stub(crate::connection::connection_id_mapper::OpenRequestMap::new, crate::connection::connection_id_mapper::OpenRequestMap::verif_new_with_fixed_seed)]
#[kani::stub(<[u8] as s2n_quic_core::ct::ConstantTimeEq>::ct_eq, stub_ct_eq)]
fn vq_c13_lidr_on_timeout_k1() {
    timeout_body(1);
}

// (harness) props=C13 tier=thorough level=bounded bound="K=1 registered id before the call, 4-byte concrete distinct id values; shared hash maps replaced by contract stubs; sequence numbers < 64" timeout=2400 mem=12
// obligations (asserted in transmit_body):
//   "C13/lidr.on_transmit/entry_other_fields_unchanged"
//   "C13/lidr.on_transmit/frame_carries_sequence_number_id_and_token_of_entry"
//   "C13/lidr.on_transmit/frame_counters"
//   "C13/lidr.on_transmit/frame_is_wellformed_new_connection_id"
//   "C13/lidr.on_transmit/frame_other_entries"
//   "C13/lidr.on_transmit/frame_retire_prior_to_is_registry_value"
//   "C13/lidr.on_transmit/frame_retire_prior_to_le_sequence_number"
//   "C13/lidr.on_transmit/frame_retires_only_issued_ids"
//   "C13/lidr.on_transmit/inv_preserved"
//   "C13/lidr.on_transmit/map_untouched"
//   "C13/lidr.on_transmit/no_other_frames"
//   "C13/lidr.on_transmit/one_frame_per_id"
//   "C13/lidr.on_transmit/tracks_packet_number_of_frame"
//   "C13/lidr.on_transmit/written_ids_become_pending_acknowledgement"
// (fn) LocalIdRegistry::on_transmit
#[kani::proof]
#[kani::unwind(6)]
#[kani::stub(crate::connection::connection_id_mapper::LocalIdMap::try_insert, stub_local_try_insert)]
#[kani::stub(crate::connection::connection_id_mapper::LocalIdMap::remove, stub_local_remove)]
#[kani::stub(crate::connection::connection_id_mapper::InitialIdMap::remove, stub_initial_remove)]
#[kani::stub(crate::connection::connection_id_mapper::OpenRequestMap::new, crate::connection::connection_id_mapper::OpenRequestMap::verif_new_with_fixed_seed)]
#[kani::stub(<[u8] as s2n_quic_core::ct::ConstantTimeEq>::ct_eq, stub_ct_eq)]
fn vq_c13_lidr_on_transmit_k1() {
    transmit_body(1, true);
}

// (harness) props=C13 tier=thorough level=bounded bound="K=2 registered ids before the call, 4-byte concrete distinct id values; shared hash maps replaced by contract stubs; now <= 2^22 us" timeout=2400 mem=12
// obligations (asserted in timeout_body):
//   "C13/lidr.on_timeout/counters_and_retire_prior_to"
//   "C13/lidr.on_timeout/exactly_the_expired_entries_are_removed"
//   "C13/lidr.on_timeout/frame_not_ready_entries"
//   "C13/lidr.on_timeout/frame_rotate_flag"
//   "C13/lidr.on_timeout/inv_preserved"
//   "C13/lidr.on_timeout/kept_entry_other_fields_unchanged"
//   "C13/lidr.on_timeout/map_holds_exactly_registered_ids"
//   "C13/lidr.on_timeout/map_remove_once_per_expired_id"
//   "C13/lidr.on_timeout/retire_prior_to_le_next_sequence_number"
//   "C13/lidr.on_timeout/retire_ready_ids_become_pending_retirement_confirmation"
//   "C13/lidr.on_timeout/unexpired_entries_are_kept"
// (fn) LocalIdRegistry::on_timeout
#[kani::proof]
#[kani::unwind(6)]
#[kani::stub(crate::connection::connection_id_mapper::LocalIdMap::try_insert, stub_local_try_insert)]
#[kani::stub(crate::connection::connection_id_mapper::LocalIdMap::remove, stub_local_remove)]
#[kani::stub(crate::connection::connection_id_mapper::InitialIdMap::remove, stub_initial_remove)]
#[kani::stub(crate::connection::connection_id_mapper::OpenRequestMap::new, crate::connection::connection_id_mapper::OpenRequestMap::verif_new_with_fixed_seed)]
#[kani::stub(<[u8] as s2n_quic_core::ct::ConstantTimeEq>::ct_eq, stub_ct_eq)]
fn vq_c13_lidr_on_timeout_k2() {
    timeout_body(2);
}

// (harness) props=C13 tier=thorough level=bounded bound="K=2 registered ids before the call, 4-byte concrete distinct id values; shared hash maps replaced by contract stubs; sequence numbers < 64" timeout=2400 mem=12
// obligations (asserted in transmit_body):
//   "C13/lidr.on_transmit/entry_other_fields_unchanged"
//   "C13/lidr.on_transmit/frame_carries_sequence_number_id_and_token_of_entry"
//   "C13/lidr.on_transmit/frame_counters"
//   "C13/lidr.on_transmit/frame_is_wellformed_new_connection_id"
//   "C13/lidr.on_transmit/frame_other_entries"
//   "C13/lidr.on_transmit/frame_retire_prior_to_is_registry_value"
//   "C13/lidr.on_transmit/frame_retire_prior_to_le_sequence_number"
//   "C13/lidr.on_transmit/frame_retires_only_issued_ids"
//   "C13/lidr.on_transmit/inv_preserved"
//   "C13/lidr.on_transmit/map_untouched"
//   "C13/lidr.on_transmit/no_other_frames"
//   "C13/lidr.on_transmit/one_frame_per_id"
//   "C13/lidr.on_transmit/tracks_packet_number_of_frame"
//   "C13/lidr.on_transmit/written_ids_become_pending_acknowledgement"
// (fn) LocalIdRegistry::on_transmit
#[kani::proof]
#[kani::unwind(6)]
#[kani::stub(crate::connection::connection_id_mapper::LocalIdMap::try_insert, stub_local_try_insert)]
#[kani::stub(crate::connection::connection_id_mapper::LocalIdMap::remove, stub_local_remove)]
#[kani::stub(crate::connection::connection_id_mapper::InitialIdMap::remove, stub_initial_remove)]
#[kani::stub(crate::connection::connection_id_mapper::OpenRequestMap::new, crate::connection::connection_id_mapper::OpenRequestMap::verif_new_with_fixed_seed)]
#[kani::stub(<[u8] as s2n_quic_core::ct::ConstantTimeEq>::ct_eq, stub_ct_eq)]
fn vq_c13_lidr_on_transmit_k2() {
    transmit_body(2, true);
}

// (harness) props=C13 tier=thorough level=bounded bound="K=2 registered ids before the call, 4-byte concrete distinct id values; shared hash maps replaced by contract stubs; sequence numbers < 64" timeout=2400 mem=12
// (fn) LocalIdRegistry::on_transmit
// obligations (asserted in transmit_body):
//   "C13/lidr.on_transmit/frame_retire_prior_to_le_sequence_number_without_caller_obligation"
//   "C13/lidr.on_transmit/frame_retire_prior_to_le_sequence_number_without_caller_obligation#outside-known"
#[kani::proof]
#[kani::unwind(6)]
#[kani::stub(crate::connection::connection_id_mapper::LocalIdMap::try_insert, stub_local_try_insert)]
#[kani::stub(crate::connection::connection_id_mapper::LocalIdMap::remove, stub_local_remove)]
#[kani::stub(crate::connection::connection_id_mapper::InitialIdMap::remove, stub_initial_remove)]
#[kani::stub(crate::connection::connection_id_mapper::OpenRequestMap::new, crate::connection::connection_id_mapper::OpenRequestMap::verif_new_with_fixed_seed)]
#[kani::stub(<[u8] as s2n_quic_core::ct::ConstantTimeEq>::ct_eq, stub_ct_eq)]
fn vq_c13_lidr_on_transmit_any_state_k2() {
    transmit_body(2, false);
}
