use super::*;
use s2n_quic_core::time::clock::testing as time;

#[kani::proof]
#[kani::unwind(6)]
fn close_sender_copy_only_after_datagram() {
    let now = time::now();
    let mut s = CloseSender::default();
    s.close(Bytes::from_static(&[1, 2, 3]), Duration::from_secs(3), now);
    // first copy is allowed immediately
    assert!(matches!(s.state, State::Closing { transmission: TransmissionState::Transmitting, .. }));
    // simulate the transmission having happened
    if let State::Closing { transmission, .. } = &mut s.state { *transmission = TransmissionState::Idle; }

    // arbitrary sequence of timeouts without any incoming datagram never re-enables transmission
    let mut i = 0;
    let mut t = now;
    while i < 3 {
        let dt: u16 = kani::any();
        t = t + Duration::from_millis(dt as u64);
        let _ = s.on_timeout(t);
        if let State::Closing { transmission, .. } = &s.state {
            assert!(matches!(transmission, TransmissionState::Idle), "C12/close_sender/copy_only_after_datagram");
        }
        i += 1;
    }
}
