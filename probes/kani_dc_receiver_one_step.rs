#[cfg(kani)]
mod verif_kani {
    use super::*;
    use crate::credentials::Id;

    #[kani::proof]
    #[kani::unwind(17)]
    fn post_auth_one_step() {
        // arbitrary reachable-shaped state: max_seen + arbitrary window content
        let state = State::new();
        let max_seen: u64 = kani::any();
        kani::assume(max_seen < (1u64 << 62) - 1);
        state.max_seen_key_id.store(max_seen, Ordering::Relaxed);
        let words: [usize; 14] = kani::any();
        {
            let mut seen = state.seen.lock().unwrap();
            *seen = Seen::new(words);
        }
        let k: u64 = kani::any();
        kani::assume(k < (1u64 << 62) - 1);
        let id = Id::from([0; 16]);
        let creds = Credentials { id, key_id: KeyId::new(k).unwrap() };
        // model: was k seen before?
        let was_seen = if k > max_seen { false } else if max_seen - k < 896 {
            let seen = state.seen.lock().unwrap();
            seen[(max_seen - k) as usize]
        } else { false };
        let in_window = k > max_seen || max_seen - k < 896;
        let r = state.post_authentication(&creds);
        if in_window {
            assert!(r.is_ok() == !was_seen);
        } else {
            assert!(r == Err(Error::Unknown));
        }
    }
}
