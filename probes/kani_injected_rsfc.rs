use super::*;

#[kani::proof]
fn rsfc_credit_bound() {
    let max = s2n_quic_core::varint::MAX_VARINT_VALUE;
    // call-site fact (stream/manager.rs:222-247): initial == desired <= u32::MAX
    let window: u32 = kani::any();
    let conn_window: u32 = kani::any();
    let conn = IncomingConnectionFlowController::new(VarInt::from_u32(conn_window), conn_window);
    let mut fc = ReceiveStreamFlowController::new(conn, VarInt::from_u32(window), window);

    // acquire up to a symbolic offset
    let off: u64 = kani::any();
    kani::assume(off <= max);
    let adv_before = fc.read_window_sync.latest_value().as_u64();
    let acq_before = fc.acquired_connection_window.as_u64();
    let r = fc.acquire_window_up_to(VarInt::new(off).unwrap(), None);
    if off > adv_before {
        assert!(r.is_err(), "C04/rsfc.acquire/over_stream_limit_rejected");
        assert!(r.unwrap_err().code == transport::Error::FLOW_CONTROL_ERROR.code, "C04/rsfc.acquire/error_code");
        assert!(fc.acquired_connection_window.as_u64() == acq_before, "C04/rsfc.acquire/err_unchanged");
    }
    if let Ok(()) = r {
        assert!(off <= adv_before, "C04/rsfc.acquire/ok_within_stream_limit");
        assert!(fc.acquired_connection_window.as_u64() == core::cmp::max(acq_before, off), "C04/rsfc.acquire/acquired_is_max");
        assert!(fc.connection_flow_controller.acquired_window().as_u64() <= conn_window as u64, "C04/rsfc.acquire/within_connection_limit");

        // application consumes some of it
        let amount: u64 = kani::any();
        kani::assume(amount <= fc.acquired_connection_window.as_u64() - fc.released_connection_window.as_u64());
        fc.release_window(VarInt::new(amount).unwrap());
        let adv = fc.read_window_sync.latest_value().as_u64();
        let consumed = fc.released_connection_window.as_u64();
        assert!(adv <= consumed + window as u64, "C04/rsfc.release/advertised_le_consumed_plus_window");
        assert!(adv >= adv_before, "C04/rsfc.release/advertised_monotone");
    }
}
