// appended as child of buffer::reassembler
use super::*;
use crate::buffer::{reader, writer};

/// symbolic Reader: only the three observations handle_reader_fin makes
struct R { off: u64, len: usize, fin: Option<u64> }
impl reader::Storage for R {
    type Error = core::convert::Infallible;
    fn buffered_len(&self) -> usize { self.len }
    fn read_chunk(&mut self, _w: usize) -> Result<reader::storage::Chunk<'_>, Self::Error> { Ok(Default::default()) }
    fn partial_copy_into<D: writer::Storage + ?Sized>(&mut self, _d: &mut D) -> Result<reader::storage::Chunk<'_>, Self::Error> { Ok(Default::default()) }
}
impl Reader for R {
    fn current_offset(&self) -> VarInt { VarInt::new(self.off).unwrap() }
    fn final_offset(&self) -> Option<VarInt> { self.fin.map(|f| VarInt::new(f).unwrap()) }
}

#[kani::proof]
fn cursors_handle_reader_fin_rfc_4_5() {
    let max = crate::varint::MAX_VARINT_VALUE;
    let start: u64 = kani::any();
    let max_recv: u64 = kani::any();
    let fin_known: bool = kani::any();
    let fin: u64 = kani::any();
    kani::assume(start <= max_recv && max_recv <= max);
    if fin_known { kani::assume(fin <= max && max_recv <= fin); }
    let mut c = Cursors { start_offset: start, max_recv_offset: max_recv, final_offset: if fin_known { fin } else { UNKNOWN_FINAL_SIZE } };
    let old = c;

    let off: u64 = kani::any();
    let len: usize = kani::any();
    let r_fin: bool = kani::any();
    kani::assume(off <= max && len <= 1 << 20);
    let end = off as u128 + len as u128;
    let mut r = R { off, len, fin: if r_fin && end <= max as u128 { Some(end as u64) } else { None } };
    let res = c.handle_reader_fin(&mut r);

    if end > max as u128 {
        assert!(matches!(res, Err(Error::OutOfRange)), "C04/cursors.fin/out_of_range");
    } else {
        let end = end as u64;
        let contradicts = match (r.fin, fin_known) {
            (Some(a), true) => a != fin,            // final size changed
            (Some(a), false) => max_recv > a,       // data already seen beyond the new final size
            (None, true) => end > fin,              // data beyond the known final size
            (None, false) => false,
        };
        assert!(res.is_err() == contradicts, "C04/cursors.fin/error_iff_contradiction");
        if res.is_ok() {
            assert!(c.max_recv_offset == core::cmp::max(max_recv, end), "C04/cursors.fin/max_recv");
            assert!(c.start_offset == start, "C04/cursors.fin/start_unchanged");
            if fin_known { assert!(c.final_offset == fin, "C04/cursors.fin/final_never_changes"); }
            else if let Some(a) = r.fin { assert!(c.final_offset == a, "C04/cursors.fin/final_recorded"); }
            else { assert!(c.final_offset == UNKNOWN_FINAL_SIZE, "C04/cursors.fin/final_stays_unknown"); }
        } else {
            assert!(matches!(res, Err(Error::InvalidFin)), "C04/cursors.fin/error_kind");
            assert!(c == old, "C04/cursors.fin/error_leaves_cursors");
        }
    }
}
