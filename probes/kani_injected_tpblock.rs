use super::*;

/// independent encoder of one parameter (id < 64, integer value): id, len, varint(value)
fn put_varint(buf: &mut [u8; 40], at: usize, x: u64) -> usize {
    if x <= 63 { buf[at] = x as u8; 1 }
    else if x <= 16383 { buf[at] = 0x40 | (x >> 8) as u8; buf[at + 1] = x as u8; 2 }
    else if x <= 1073741823 { buf[at] = 0x80 | (x >> 24) as u8; buf[at+1] = (x >> 16) as u8; buf[at+2] = (x >> 8) as u8; buf[at+3] = x as u8; 4 }
    else { let mut i = 0; while i < 8 { buf[at + i] = (x >> (56 - 8 * i)) as u8; i += 1; } buf[at] |= 0xC0; 8 }
}
fn put_param(buf: &mut [u8; 40], at: usize, id: u8, v: u64) -> usize {
    buf[at] = id;
    let mut tmp = [0u8; 40];
    let n = put_varint(&mut tmp, 0, v);
    buf[at + 1] = n as u8;
    let mut i = 0; while i < 8 { if i < n { buf[at + 2 + i] = tmp[i]; } i += 1; }
    2 + n
}

#[kani::proof]
#[kani::unwind(10)]
fn tp_block_two_params() {
    let max = crate::varint::MAX_VARINT_VALUE;
    // two parameters drawn from {max_ack_delay 0x0b, active_connection_id_limit 0x0e, unknown 0x3f}
    let id1: u8 = kani::any();
    let id2: u8 = kani::any();
    kani::assume((id1 == 0x0b || id1 == 0x0e || id1 == 0x3f) && (id2 == 0x0b || id2 == 0x0e || id2 == 0x3f));
    let v1: u64 = kani::any();
    let v2: u64 = kani::any();
    kani::assume(v1 <= max && v2 <= max);
    let mut buf = [0u8; 40];
    let n1 = put_param(&mut buf, 0, id1, v1);
    let n2 = put_param(&mut buf, n1, id2, v2);
    let r = ClientTransportParameters::decode_parameters(DecoderBuffer::new(&buf[..n1 + n2]));

    let valid = |id: u8, v: u64| match id { 0x0b => v <= (1 << 14), 0x0e => v >= 2, _ => true };   // code's own max_ack_delay bound here; the RFC bound is the separate validator obligation
    let dup = id1 == id2 && id1 != 0x3f;
    let expect_ok = !dup && valid(id1, v1) && valid(id2, v2);
    assert!(r.is_ok() == expect_ok, "C14/decode_parameters/accept_iff_spec");
    if let Ok(p) = r {
        let mad = if id1 == 0x0b { Some(v1) } else if id2 == 0x0b { Some(v2) } else { None };
        let lim = if id1 == 0x0e { Some(v1) } else if id2 == 0x0e { Some(v2) } else { None };
        assert!(p.max_ack_delay.0.as_u64() == mad.unwrap_or(25), "C14/decode_parameters/max_ack_delay_value_or_default");
        assert!(p.active_connection_id_limit.0.as_u64() == lim.unwrap_or(2), "C14/decode_parameters/active_cid_limit_value_or_default");
        assert!(p.ack_delay_exponent.0 == 3, "C14/decode_parameters/absent_gets_default");
    }
}
