#[cfg(kani)]
mod verif_kani {
    use super::*;
    use crate::buffer::reassembler::request::Request;

    const CAP: usize = 8;

    #[kani::proof]
    #[kani::unwind(10)]
    fn slot_write_one_step() {
        let start: u64 = kani::any();
        kani::assume(start <= (1u64 << 62) - 1 - CAP as u64);
        let mut slot = Slot::new(start, start + CAP as u64, BytesMut::with_capacity(CAP));
        // pre-state: k0 bytes already filled
        let pre: [u8; CAP] = kani::any();
        let k0: usize = kani::any();
        kani::assume(k0 <= CAP);
        slot.data.extend_from_slice(&pre[..k0]);
        let old_end = slot.end();

        let data: [u8; 4] = kani::any();
        let len: usize = kani::any();
        kani::assume(len >= 1 && len <= 4);
        let off: u64 = kani::any();
        kani::assume(off >= start && off < start + CAP as u64 + 2 && off + 4 <= (1u64 << 62) - 1);
        let mut req = Request::new(VarInt::new(off).unwrap(), &data[..len], false).unwrap();
        let mut filled_slot = false;
        let res = slot.try_write_reader(&mut req, &mut filled_slot).unwrap();

        // frame: the prefix that was there stays
        assert!(slot.start() == start);
        let mut i = 0;
        while i < CAP {
            if i < k0 && (i as u64) < slot.end() - start { assert!(slot.as_slice()[i] == pre[i]); }
            i += 1;
        }
        match res {
            None => {
                assert!(slot.end_allocated() == start + CAP as u64);
            }
            Some(filled) => {
                // split: gap stays in self, filled starts at the request offset
                assert!(off > old_end);
                assert!(filled.start() == off);
                assert!(slot.end_allocated() == off);
                assert!(filled.end_allocated() == start + CAP as u64);
                assert!(filled.as_slice()[0] == data[0]);
            }
        }
    }
}
