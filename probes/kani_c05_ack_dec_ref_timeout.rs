// C05 ACK decode-side harnesses that did NOT finish (CBMC timeout 1500 s each, machine load 30-60 on 16 cores):
//   vq_c05_frame_ack_dec : real `Ack<AckRangesDecoder>` decoder on oracle bytes, 1..=2 ranges, fields from one
//                          varint length class, unwind 7   (3 ranges / unwind 10 timed out before that)
//   vq_c05_frame_ack_ref : agreement with the reference parser on arbitrary input <= 8 bytes (<= 2 ranges), unwind 9
//                          (<= 20 bytes / 8 ranges and <= 12 bytes / 4 ranges timed out before that)
// To try again: append this text to contracts/kani/core/c05_frames_ack.rs (it uses that file's helpers) and run
//   bin/check C05 --tier thorough --only vq_c05_frame_ack_dec,vq_c05_frame_ack_ref
// Suspected cost: `AckRangesDecoder::decode` walks the ranges once to find their end (`for _ in 0..count`, count
// symbolic => unwound to the bound, two varint decodes at symbolic offsets per iteration) and the harness walks them
// a second time through `ack_ranges()`.

// ---- reference parser ---------------------------------------------------------------------------------------
const REF_MAX_RANGES: usize = 2;

#[derive(Clone, Copy)]
struct AckView {
    ecn: Option<[u64; 3]>,
    delay: u64,
    /// acknowledged ranges, largest first
    n: usize,
    lo: [u64; REF_MAX_RANGES],
    hi: [u64; REF_MAX_RANGES],
}

/// Reference parser for an ACK frame in an input of at most 8 bytes.  None = FRAME_ENCODING_ERROR.
/// 19.3.1: "If any computed packet number is negative, an endpoint MUST generate a connection error of type
/// FRAME_ENCODING_ERROR."
fn rfc_parse_ack(rd: &mut Rd<32>) -> Option<AckView> {
    let ty = rd.u8()?;
    if ty != 0x02 && ty != 0x03 {
        return None;
    }
    let largest = rd.varint()?;
    let delay = rd.varint()?;
    let count = rd.varint()?;
    let first = rd.varint()?;
    if first > largest {
        return None;
    }
    let mut lo = [0u64; REF_MAX_RANGES];
    let mut hi = [0u64; REF_MAX_RANGES];
    hi[0] = largest;
    lo[0] = largest - first;
    // the five leading fields take at least 5 bytes, every further range at least 2: in 8 bytes at most one fits
    if count > (REF_MAX_RANGES - 1) as u64 {
        return None;
    }
    let mut smallest = lo[0];
    unroll!(2, k, {
        if k >= 1 && (k as u64) <= count {
            let gap = rd.varint()?;
            let len = rd.varint()?;
            // largest_k = smallest_{k-1} - gap - 2
            if smallest < 2 || smallest - 2 < gap {
                return None;
            }
            let l = smallest - gap - 2;
            if len > l {
                return None;
            }
            hi[k] = l;
            lo[k] = l - len;
            smallest = lo[k];
        }
    });
    let ecn = if ty == 0x03 { Some([rd.varint()?, rd.varint()?, rd.varint()?]) } else { None };
    Some(AckView { ecn, delay, n: count as usize + 1, lo, hi })
}

// ---- dec ----------------------------------------------------------------------------------------------------
//@ harness props=C05 tier=thorough level=bounded timeout=1500 bound="1..=2 acknowledged ranges (ACK Range Count <= 1), with/without ECN counts; the fields of one frame all <= 63 or all in 2^30..=2^62-1; <= 3 trailing bytes"
//@ fn Ack::decode_parameterized_mut
//@ fn AckRangesDecoder::decode_parameterized_mut
//@ fn AckRangesIter::next
//@ fn EcnCounts::decode
#[kani::proof]
#[kani::unwind(7)]
fn vq_c05_frame_ack_dec() {
    let wide: bool = kani::any();
    let ranges = any_ranges();
    kani::assume(ranges.n <= 2); // the three-range shape did not finish within 1500 s; ACK Range Count <= 1 here
    kani::assume(fields_in_class(&ranges, wide));
    let delay = any_int_of(wide);
    let ecn = any_ecn(wide);
    let spec = spec_ack(&ranges, delay, ecn, kani::any());
    let extra: usize = kani::any();
    kani::assume(extra <= 3 && spec.n + extra <= W);
    let mut input = spec.b;
    let r = if ecn.is_some() { decode_ack(&mut input[..spec.n + extra], T_ACK_ECN) } else { decode_ack(&mut input[..spec.n + extra], T_ACK) };
    assert!(r.is_some(), "C05/ack.dec/accepts_rfc_bytes");
    if let Some((a, rest)) = r {
        assert!(rest == extra, "C05/ack.dec/remainder");
        assert!(a.ack_delay.as_u64() == delay, "C05/ack.dec/ack_delay");
        assert!(a.largest_acknowledged().as_u64() == ranges.hi[0], "C05/ack.dec/largest_acknowledged");
        let got_ecn = a.ecn_counts.map(|e| [e.ect_0_count.as_u64(), e.ect_1_count.as_u64(), e.ce_count.as_u64()]);
        assert!(got_ecn == ecn, "C05/ack.dec/ecn_counts_iff_type_0x03");
        let mut it = a.ack_ranges();
        assert!(it.len() == ranges.n, "C05/ack.dec/range_count");
        let mut ranges_ok = true;
        unroll!(3, k, {
            let got = it.next();
            if k < ranges.n {
                match got {
                    Some(g) => {
                        if g.start().as_u64() != ranges.lo[k] || g.end().as_u64() != ranges.hi[k] {
                            ranges_ok = false;
                        }
                    }
                    None => ranges_ok = false,
                }
            } else if got.is_some() {
                ranges_ok = false;
            }
        });
        assert!(ranges_ok, "C05/ack.dec/ranges_are_the_acknowledged_packet_numbers");
        assert!(it.next().is_none(), "C05/ack.dec/no_range_beyond_count");
    }
    kani::cover!(ranges.n == 1 && ecn.is_none() && extra == 0, "reach:one_range_no_ecn");
    kani::cover!(ranges.n == 2 && ecn.is_some() && extra == 3, "reach:two_ranges_with_ecn_and_trailing_bytes");
    kani::cover!(!wide && ranges.n == 2 && ranges.lo[1] == 0, "reach:down_to_packet_zero");
    kani::cover!(wide && ranges.n == 2, "reach:two_ranges_eight_byte_fields");
    kani::cover!(true, "reach:end");
}

// ---- ref ----------------------------------------------------------------------------------------------------
//@ harness props=C05 tier=thorough level=bounded timeout=1500 bound="arbitrary input of <= 8 bytes with type byte 0x02 or 0x03 (<= 2 ranges)"
//@ fn Ack::decode_parameterized_mut
//@ fn AckRangesDecoder::decode_parameterized_mut
//@ fn AckRangesIter::next
//@ fn EcnCounts::decode
#[kani::proof]
#[kani::unwind(9)]
fn vq_c05_frame_ack_ref() {
    let mut bytes: [u8; 32] = kani::any();
    let len: usize = kani::any();
    kani::assume(len >= 1 && len <= 8);
    let ecn_type: bool = kani::any();
    bytes[0] = if ecn_type { 0x03 } else { 0x02 };
    let mut rd = Rd::<32>::new(bytes, len);
    let reference = rfc_parse_ack(&mut rd);
    let mut input = bytes;
    let r = if ecn_type { decode_ack(&mut input[..len], 0x03) } else { decode_ack(&mut input[..len], 0x02) };
    assert!(r.is_some() == reference.is_some(), "C05/ack.ref/ok_iff_reference_ok");
    if let (Some((a, rest)), Some(want)) = (r, reference) {
        assert!(len - rest == rd.at, "C05/ack.ref/consumed_eq_reference");
        assert!(rest < len, "C05/ack.ref/progress");
        assert!(a.ack_delay.as_u64() == want.delay, "C05/ack.ref/ack_delay");
        let got_ecn = a.ecn_counts.map(|e| [e.ect_0_count.as_u64(), e.ect_1_count.as_u64(), e.ce_count.as_u64()]);
        assert!(got_ecn == want.ecn, "C05/ack.ref/ecn_counts");
        let mut it = a.ack_ranges();
        assert!(it.len() == want.n, "C05/ack.ref/range_count");
        let mut ranges_ok = true;
        unroll!(2, k, {
            let got = it.next();
            if k < want.n {
                match got {
                    Some(g) => {
                        if g.start().as_u64() != want.lo[k] || g.end().as_u64() != want.hi[k] {
                            ranges_ok = false;
                        }
                    }
                    None => ranges_ok = false,
                }
            } else if got.is_some() {
                ranges_ok = false;
            }
        });
        assert!(ranges_ok && it.next().is_none(), "C05/ack.ref/ranges_eq_reference");
    }
    kani::cover!(reference.is_some() && rd.at == len, "reach:exact_fit");
    kani::cover!(reference.map(|w| w.n).unwrap_or(0) == 2, "reach:two_ranges");
    kani::cover!(reference.is_some() && ecn_type, "reach:with_ecn");
    kani::cover!(reference.is_none() && len == 8, "reach:rejected");
    kani::cover!(true, "reach:end");
}
