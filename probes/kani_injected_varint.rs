use super::*;
use s2n_codec::{DecoderBuffer, EncoderBuffer, Encoder};

/// independent transcription of RFC 9000 section 16 (Table 4)
fn spec_len(x: u64) -> usize { if x <= 63 { 1 } else if x <= 16383 { 2 } else if x <= 1073741823 { 4 } else { 8 } }
fn spec_byte(x: u64, i: usize) -> u8 {
    let n = spec_len(x);
    let prefix: u8 = match n { 1 => 0b00, 2 => 0b01, 4 => 0b10, _ => 0b11 };
    let shift = 8 * (n - 1 - i);
    let b = ((x >> shift) & 0xff) as u8;
    if i == 0 { b | (prefix << 6) } else { b }
}

#[kani::proof]
#[kani::unwind(10)]
fn varint_enc_dec_vs_rfc() {
    let x: u64 = kani::any();
    kani::assume(x <= MAX_VARINT_VALUE);
    let v = VarInt::new(x).unwrap();
    let cap: usize = kani::any();
    kani::assume(cap >= 8 && cap <= 16);     // both the >=8 (oversized write) and exact paths
    let exact: bool = kani::any();
    let n = spec_len(x);
    assert!(v.encoding_size() == n, "C05/varint.enc/len_announced");
    let mut buf = [0xAAu8; 16];
    let used = {
        let mut e = EncoderBuffer::new(if exact { &mut buf[..n] } else { &mut buf[..cap] });
        e.encode(&v);
        e.len()
    };
    assert!(used == n, "C05/varint.enc/len");
    let mut i = 0;
    while i < 8 { if i < n { assert!(buf[i] == spec_byte(x, i), "C05/varint.enc/bytes_eq_spec"); } i += 1; }
    if exact { assert!(buf[n] == 0xAA, "C05/varint.enc/no_write_past_len"); }
    let (d, rest) = DecoderBuffer::new(&buf[..n]).decode::<VarInt>().unwrap();
    assert!(d.as_u64() == x && rest.is_empty(), "C05/varint.dec/roundtrip");
}

#[kani::proof]
#[kani::unwind(10)]
fn varint_dec_total() {
    let bytes: [u8; 9] = kani::any();
    let len: usize = kani::any();
    kani::assume(len <= 9);
    match DecoderBuffer::new(&bytes[..len]).decode::<VarInt>() {
        Ok((v, rest)) => {
            let n = 1usize << (bytes[0] >> 6);
            assert!(len >= n && rest.len() == len - n, "C05/varint.dec/consumes_prefix_len");
            assert!(v.as_u64() <= MAX_VARINT_VALUE, "C05/varint.dec/range");
        }
        Err(_) => { assert!(len == 0 || len < (1usize << (bytes[0] >> 6)), "C05/varint.dec/err_only_if_short"); }
    }
}
