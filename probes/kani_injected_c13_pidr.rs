// NOT DISCHARGED -- kept as a record (see contracts/STRENGTH-c13.md, "attempts").  Contract harness for
// PeerIdRegistry::on_new_connection_id; to use it, move it back to contracts/kani/transport/pidr.rs and restore the
// first line to `//@ inject crate=transport src=quic/s2n-quic-transport/src/connection/peer_id_registry.rs`.
//   K=1: 5.3 GB and no result after 20 min (killed).  The crate's own check_consistency() clones the registry into a
//   Vec and runs three sort_by_key + dedup_by_key passes, one of them over the 16-byte tokens (memcmp of 16 bytes =>
//   global unwind bound 17 for every loop of the harness).  Next step: stub PeerIdRegistry::check_consistency by its
//   meaning (pairwise distinct sequence numbers / ids / tokens, asserted directly by the harness) and drop to unwind 6.
// (inject) crate=transport src=quic/s2n-quic-transport/src/connection/peer_id_registry.rs
// Contract harnesses for PeerIdRegistry (property C13: connection ids the peer issued to this endpoint).
// Predicates: contracts/spec/conn_ids.rs (shared with the Verus lemmas in verus/lemmas/C13.rs).
//
// Same construction as lidr.rs: the registry is built by the real constructors, the endpoint-wide
// stateless-reset map is replaced by contract stubs with a ghost log (_c13_common.rs), the shape of
// the registry (K registered ids, concrete distinct 4-byte ids "pid0".."pid3") is fixed per harness,
// everything else is symbolic.  The crate's own check_consistency() (memo caches, pairwise distinct
// sequence numbers / ids / tokens via sort + dedup) runs in the dev profile as a free obligation.
use super::*;
#[allow(dead_code, unused_variables)]
mod spec {
    include!("../../spec/conn_ids.rs");
}
use spec::*;
include!("_c13_common.rs");

use s2n_quic_core::{packet::number::PacketNumberSpace, varint::VarInt};

const K_MAX: usize = 4;

fn pidk(k: u8) -> connection::PeerId {
    connection::PeerId::try_from_bytes(&[b'p', b'i', b'd', b'0' + k]).unwrap()
}
fn pn(x: u32) -> PacketNumber {
    PacketNumberSpace::ApplicationData.new_packet_number(VarInt::from_u32(x))
}
fn any_token() -> stateless_reset::Token {
    let b: [u8; 16] = kani::any();
    stateless_reset::Token::from(b)
}
fn any_status() -> PeerIdStatus {
    let k: u8 = kani::any();
    kani::assume(k < 6);
    match k {
        0 => New,
        1 => InUse,
        2 => InUsePendingNewConnectionId,
        3 => PendingRetirement,
        4 => PendingRetirementRetransmission,
        _ => PendingAcknowledgement(pn(kani::any())),
    }
}

#[derive(Clone, Copy)]
struct Snap {
    id: connection::PeerId,
    seq: u32,
    tok: Option<stateless_reset::Token>,
    st: u8,
    st_pn: Option<PacketNumber>,
}
fn snap(e: &PeerIdInfo) -> Snap {
    let (st, st_pn) = match e.status {
        New => (0, None),
        InUse => (1, None),
        InUsePendingNewConnectionId => (2, None),
        PendingRetirement => (3, None),
        PendingRetirementRetransmission => (4, None),
        PendingAcknowledgement(p) => (5, Some(p)),
    };
    Snap { id: e.id, seq: e.sequence_number, tok: e.stateless_reset_token, st, st_pn }
}
fn opt_tok_eq(a: &Option<stateless_reset::Token>, b: &Option<stateless_reset::Token>) -> bool {
    match (a, b) {
        (None, None) => true,
        (Some(x), Some(y)) => tok_bits(x) == tok_bits(y),
        _ => false,
    }
}
fn snap_eq(a: &Snap, b: &Snap) -> bool {
    a.id == b.id && a.seq == b.seq && opt_tok_eq(&a.tok, &b.tok) && a.st == b.st && a.st_pn == b.st_pn
}
fn abs_entry(e: &Snap) -> PidEntry {
    let b = e.id.as_bytes();
    PidEntry {
        seq: e.seq as i128,
        id_len: b.len() as i128,
        id_a: be10(b, 0),
        id_b: be10(b, 10),
        has_tok: e.tok.is_some(),
        tok_a: match &e.tok {
            Some(t) => tok_a(t),
            None => 0,
        },
        tok_b: match &e.tok {
            Some(t) => tok_b(t),
            None => 0,
        },
        status: e.st as i128,
    }
}

#[derive(Clone, Copy)]
struct View {
    n: usize,
    e: [Option<Snap>; K_MAX],
    s: Pidr,
    rotate: bool,
}
fn view(reg: &PeerIdRegistry) -> View {
    let n = reg.registered_ids.len();
    assert!(n <= K_MAX);
    let mut e: [Option<Snap>; K_MAX] = [None; K_MAX];
    let mut active = 0;
    let mut i = 0;
    while i < K_MAX {
        if i < n {
            let s = snap(&reg.registered_ids[i]);
            if s.st <= 2 {
                active += 1;
            }
            e[i] = Some(s);
        }
        i += 1;
    }
    View { n, e, s: Pidr { retire_prior_to: reg.retire_prior_to as i128, len: n as i128, active }, rotate: reg.rotate_handshake_connection_id }
}
impl View {
    fn at(&self, i: usize) -> Snap {
        self.e[i].unwrap()
    }
    fn abs(&self, i: usize) -> PidEntry {
        abs_entry(&self.at(i))
    }
}
fn inv(v: &View) -> bool {
    let mut ok = pidr_inv(v.s);
    let mut i = 0;
    while i < K_MAX {
        if i < v.n {
            let a = v.abs(i);
            ok = ok && pid_entry_inv(v.s, a);
            let mut j = i + 1;
            while j < K_MAX {
                if j < v.n {
                    ok = ok && pid_pair_inv(a, v.abs(j));
                }
                j += 1;
            }
        }
        i += 1;
    }
    ok
}

/// Arbitrary registry with exactly `n` (1..=3) registered peer ids satisfying the invariant.
fn any_pidr(n: usize) -> PeerIdRegistry {
    let internal = the_internal_id();
    {
        let l = log();
        l.building = true;
        l.internal = Some(internal);
    }
    let mut mapper = new_mapper();
    let rotate: bool = kani::any();
    let mut reg = mapper.create_client_peer_id_registry(internal, rotate);
    core::mem::forget(mapper);
    let mut i = 0;
    while i < K_MAX {
        if i < n {
            reg.registered_ids.push(PeerIdInfo {
                id: pidk(i as u8),
                sequence_number: kani::any(),
                stateless_reset_token: if kani::any() { Some(any_token()) } else { None },
                status: any_status(),
            });
        }
        i += 1;
    }
    reg.retire_prior_to = kani::any();
    reg.ack_interest.clear();
    reg.transmission_interest.clear();
    if kani::any() {
        let _ = reg.ack_interest.get(&reg.registered_ids);
    }
    if kani::any() {
        let _ = reg.transmission_interest.get(&reg.registered_ids);
    }
    let v = view(&reg);
    kani::assume(inv(&v));
    log().building = false;
    reg
}

fn finish(reg: PeerIdRegistry) {
    // see lidr.rs: the shared hash maps are never dropped in a harness
    core::mem::forget(reg);
}

// ================================================================================================
// on_new_connection_id (RFC 9000 5.1.1, 5.1.2, 19.15)
// ================================================================================================
// No caller obligation: `retire_prior_to > sequence_number` is rejected by the frame decoder
// (s2n-quic-core frame/new_connection_id.rs, FRAME_ENCODING_ERROR, property C05) before this function is
// reached, but the harness does not rely on it.
fn ncid_body(n: usize) {
    let mut reg = any_pidr(n);
    let old = view(&reg);
    assert!(inv(&old), "C13/pidr.builder/inv");

    let sel: u8 = kani::any();
    kani::assume(sel <= 3);
    let id = pidk(sel);
    let seq: u32 = kani::any();
    let frame_rpt: u32 = kani::any();
    let token = any_token();

    let r = reg.on_new_connection_id(&id, seq, frame_rpt, &token);
    let new = view(&reg);

    // ---- independent reading of RFC 9000 19.15 / 5.1.1 / 5.1.2 --------------------------------
    let nb = id.as_bytes();
    let frame = PidEntry { seq: seq as i128, id_len: nb.len() as i128, id_a: be10(nb, 0), id_b: be10(nb, 10), has_tok: true, tok_a: tok_a(&token), tok_b: tok_b(&token), status: pst_new() };
    let new_rpt = imax2(old.s.retire_prior_to, frame_rpt as i128);
    let mut conflict = false;
    let mut duplicate = false;
    let mut i = 0;
    while i < K_MAX {
        if i < old.n {
            conflict = conflict || pid_frame_conflicts_with(old.abs(i), frame);
            duplicate = duplicate || pid_frame_duplicate_of(old.abs(i), frame);
        }
        i += 1;
    }
    let new_usable = frame.seq >= new_rpt;
    let rotate_now = !duplicate && new_usable;
    // active ids after adding and retiring
    let mut active_after: i128 = if !duplicate && new_usable { 1 } else { 0 };
    let mut i = 0;
    while i < K_MAX {
        if i < old.n {
            let o = old.abs(i);
            let retired = pid_is_active(o) && (o.seq < new_rpt || (rotate_now && o.status == pst_in_use_pending_new_connection_id()));
            if pid_is_active(o) && !retired {
                active_after += 1;
            }
        }
        i += 1;
    }
    let over_limit = !duplicate && active_after > pid_active_limit();

    assert!(r.is_ok() == (!conflict && !over_limit), "C13/pidr.on_new_connection_id/accepted_iff_rfc9000_19_15_and_5_1_1");
    match r {
        Ok(()) => {
            assert!(pidr_ncid_rpt(old.s, frame_rpt as i128, new.s), "C13/pidr.on_new_connection_id/ok_retire_prior_to_is_largest_received");
            assert!(new.n == if duplicate { old.n } else { old.n + 1 }, "C13/pidr.on_new_connection_id/ok_appends_unless_repetition");
            let mut i = 0;
            while i < K_MAX {
                if i < old.n {
                    assert!(
                        pid_ncid_entry_post(old.abs(i), new_rpt, rotate_now, new.abs(i)),
                        "C13/pidr.on_new_connection_id/ok_retires_exactly_ids_below_retire_prior_to_and_rotated_handshake_id"
                    );
                    assert!(new.at(i).st_pn == old.at(i).st_pn || new.at(i).st != 5, "C13/pidr.on_new_connection_id/ok_frame_packet_numbers");
                }
                i += 1;
            }
            if !duplicate {
                assert!(pid_ncid_new_entry(frame, new_rpt, new.abs(old.n)), "C13/pidr.on_new_connection_id/ok_new_entry_is_frame");
            }
            assert!(new.s.active == active_after, "C13/pidr.on_new_connection_id/ok_active_count");
            assert!(new.s.active <= pid_active_limit(), "C13/pidr.on_new_connection_id/ok_active_ids_within_advertised_limit");
        }
        Err(err) => {
            // RFC 9000 19.15: PROTOCOL_VIOLATION for a conflicting frame; 5.1.1: CONNECTION_ID_LIMIT_ERROR
            let expected = if conflict { InvalidNewConnectionId } else { ExceededActiveConnectionIdLimit };
            assert!(err == expected, "C13/pidr.on_new_connection_id/err_kind_per_rfc9000");
            let expected_code = if conflict { transport::Error::PROTOCOL_VIOLATION.code } else { transport::Error::CONNECTION_ID_LIMIT_ERROR.code };
            assert!(transport::Error::from(err).code == expected_code, "C13/pidr.on_new_connection_id/err_transport_error_code_per_rfc9000");
            // strict: an error leaves the registry unchanged
            let mut unchanged = new.n == old.n && new.s.retire_prior_to == old.s.retire_prior_to;
            let mut residual = new.s.retire_prior_to >= old.s.retire_prior_to && new.n >= old.n && new.n <= old.n + 1;
            let mut i = 0;
            while i < K_MAX {
                if i < old.n {
                    unchanged = unchanged && i < new.n && snap_eq(&old.at(i), &new.at(i));
                    residual = residual && pid_ncid_err_entry_post(old.abs(i), new.abs(i));
                }
                i += 1;
            }
            assert!(unchanged, "C13/pidr.on_new_connection_id/err_state_unchanged");
            // residual (known finding): retire_prior_to is raised and ids are retired / the new id is appended
            // before the error is detected; ids, sequence numbers and tokens of registered entries never change
            assert!(residual, "C13/pidr.on_new_connection_id/err_state_unchanged#outside-known");
        }
    }
    let lg = log();
    assert!(lg.tok_ins == 0 && lg.tok_rem == 0, "C13/pidr.on_new_connection_id/reset_token_map_untouched");
    assert!(new.rotate == old.rotate, "C13/pidr.on_new_connection_id/frame_rotate_flag");
    if r.is_ok() {
        assert!(inv(&new), "C13/pidr.on_new_connection_id/inv_preserved");
    }

    kani::cover!(r.is_ok() && !duplicate, "reach:accepted");
    kani::cover!(r.is_ok() && duplicate, "reach:repetition_ignored");
    kani::cover!(r.is_err() && conflict, "reach:conflict");
    kani::cover!(r.is_ok() && !new_usable && !duplicate, "reach:new_id_retired_immediately");
    kani::cover!(r.is_ok() && rotate_now, "reach:usable_new_id");
    if n == 3 {
        kani::cover!(r.is_err() && !conflict, "reach:active_connection_id_limit_exceeded");
    }
    kani::cover!(true, "reach:end");
    finish(reg);
}

// check_consistency() sorts the registered ids by their 16-byte tokens: a 16-iteration memcmp, hence unwind 17
// (harness) props=C13 tier=thorough level=bounded bound="K=1 registered peer id before the call, 4-byte concrete distinct id values" timeout=2400 mem=12
// (fn) PeerIdRegistry::on_new_connection_id
#[kani::proof]
#[kani::unwind(17)]
#[kani::stub(crate::connection::connection_id_mapper::StatelessResetMap::insert, stub_token_insert)]
#[kani::stub(crate::connection::connection_id_mapper::StatelessResetMap::remove, stub_token_remove)]
#[kani::stub(crate::connection::connection_id_mapper::OpenRequestMap::new, crate::connection::connection_id_mapper::OpenRequestMap::verif_new_with_fixed_seed)]
#[kani::stub(<[u8] as s2n_quic_core::ct::ConstantTimeEq>::ct_eq, stub_ct_eq)]
fn vq_c13_pidr_on_new_connection_id_k1() {
    ncid_body(1);
}

// (harness) props=C13 tier=thorough level=bounded bound="K=2 registered peer ids before the call, 4-byte concrete distinct id values" timeout=2400 mem=12
// (fn) PeerIdRegistry::on_new_connection_id
#[kani::proof]
#[kani::unwind(17)]
#[kani::stub(crate::connection::connection_id_mapper::StatelessResetMap::insert, stub_token_insert)]
#[kani::stub(crate::connection::connection_id_mapper::StatelessResetMap::remove, stub_token_remove)]
#[kani::stub(crate::connection::connection_id_mapper::OpenRequestMap::new, crate::connection::connection_id_mapper::OpenRequestMap::verif_new_with_fixed_seed)]
#[kani::stub(<[u8] as s2n_quic_core::ct::ConstantTimeEq>::ct_eq, stub_ct_eq)]
fn vq_c13_pidr_on_new_connection_id_k2() {
    ncid_body(2);
}

// (harness) props=C13 tier=thorough level=bounded bound="K=3 registered peer ids before the call (the advertised limit), 4-byte concrete distinct id values" timeout=2400 mem=12
// (fn) PeerIdRegistry::on_new_connection_id
#[kani::proof]
#[kani::unwind(17)]
#[kani::stub(crate::connection::connection_id_mapper::StatelessResetMap::insert, stub_token_insert)]
#[kani::stub(crate::connection::connection_id_mapper::StatelessResetMap::remove, stub_token_remove)]
#[kani::stub(crate::connection::connection_id_mapper::OpenRequestMap::new, crate::connection::connection_id_mapper::OpenRequestMap::verif_new_with_fixed_seed)]
#[kani::stub(<[u8] as s2n_quic_core::ct::ConstantTimeEq>::ct_eq, stub_ct_eq)]
fn vq_c13_pidr_on_new_connection_id_k3() {
    ncid_body(3);
}
