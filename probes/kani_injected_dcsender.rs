use super::*;

#[kani::proof]
#[kani::unwind(3)]
fn sender_next_key_id_contract() {
    let s = State::new([0; secret_control::TAG_LEN]);
    let cur: u64 = kani::any();
    kani::assume(cur <= (1u64 << 62) - 3);     // below the documented panic point
    s.current_id.store(cur, Ordering::Relaxed);
    let a = s.next_key_id();
    assert!(*a == cur, "C19/sender.next_key_id/returns_current");
    assert!(s.current_id.load(Ordering::Relaxed) == cur + 1, "C19/sender.next_key_id/increments_by_one");
    let m: u64 = kani::any();
    kani::assume(m <= (1u64 << 62) - 1);
    s.update_for_stale_key(VarInt::new(m).unwrap());
    let after = s.current_id.load(Ordering::Relaxed);
    assert!(after == core::cmp::max(cur + 1, m), "C19/sender.stale_key/monotone");
    if after <= (1u64 << 62) - 3 {
        let b = s.next_key_id();
        assert!(*b > *a, "C19/sender/never_reissues");
    }
}
