//@ inject crate=core src=quic/s2n-quic-core/src/ack/ranges.rs
// OUTCOME (worker c06c08, not part of the registered checks): compiles and injects, but all three harnesses
// (K = 0, 1, 2 stored ranges, limit 2, unwind 6) hit the 1700 s timeout on the shared machine (load 20-50).  A verbose
// run of K = 0 shows CBMC still in symbolic execution after 400 s with only 142 loop unwindings logged (75 in
// IntervalSet::binary_search_with, 42 in core::ptr::swap_nonoverlapping_bytes under VecDeque, 15 in check_integrity):
// each symex step over VecDeque<Interval<PacketNumber>> is slow, it is not a path explosion.  Needs the helper
// kani_injected_c08_interval_set_access.rs injected into interval_set/mod.rs.  To retry: copy both files to
// contracts/kani/core/c08_ack_ranges.rs and contracts/kani/core/c08_interval_set_access.rs.
// Contract harnesses for ack::Ranges::insert_packet_number_range -- properties C08 (an ACK names only packet numbers
// handed to the set) and C16 ("a capacity-bounded ACK-range set discarding only its lowest ranges").
// Predicates: contracts/spec/ack_ranges.rs (shared with verus/lemmas/C08.rs).
//
// One-step inductive pattern (DESIGN 2.3): an arbitrary well-formed set of a *concrete* number K of stored ranges
// (values symbolic), one call of the real function, the view afterwards is the specified function of the view before,
// checked for a symbolic witness packet number q.  One harness per K; the capacity is `Ranges::new(limit = 2)`, so
// K = 2 is the full set.  IntervalSet's `check_integrity()` (active because the crate is built with cfg(test)) runs
// inside every insert.
use super::*;
use crate::packet::number::PacketNumberSpace;
#[allow(dead_code, unused_variables)]
mod spec {
    include!("../../spec/ack_ranges.rs");
}
use spec::*;

const MAXV: u64 = crate::varint::MAX_VARINT_VALUE;
const SPACE: PacketNumberSpace = PacketNumberSpace::ApplicationData;
const LIMIT: usize = 2;

fn pn_of(x: u64) -> PacketNumber {
    SPACE.new_packet_number(VarInt::new(x).unwrap())
}

/// Arbitrary well-formed set with exactly `k` stored ranges: sorted, disjoint and not adjacent (the IntervalSet
/// invariant that insert re-establishes, asserted as `.../inv_preserved`), at most LIMIT of them.
fn any_ranges(k: usize) -> Ranges {
    let mut r = Ranges::new(LIMIT);
    let b: [u64; 4] = kani::any();
    kani::assume(b[0] <= b[1] && b[2] <= b[3] && b[3] <= MAXV);
    kani::assume(b[1] < MAXV && b[1] + 1 < b[2]);
    if k >= 1 {
        r.0.verif_push_back(pn_of(b[0]), pn_of(b[1]));
    }
    if k >= 2 {
        r.0.verif_push_back(pn_of(b[2]), pn_of(b[3]));
    }
    r
}

/// abstraction: q is in the set (reads the stored intervals directly, independent of IntervalSet::contains)
fn member(r: &Ranges, q: u64) -> bool {
    let mut found = false;
    let mut i = 0;
    while i < LIMIT + 1 {
        if let Some((s, e)) = r.0.verif_get(i) {
            found |= s.as_u64() <= q && q <= e.as_u64();
        }
        i += 1;
    }
    found
}

/// sorted, disjoint, non-adjacent, valid intervals, at most LIMIT of them
fn well_formed(r: &Ranges) -> bool {
    let n = r.0.interval_len();
    let mut ok = n <= LIMIT;
    let mut i = 0;
    while i < LIMIT {
        if let Some((s, e)) = r.0.verif_get(i) {
            ok &= s.as_u64() <= e.as_u64();
            if let Some((s2, _)) = r.0.verif_get(i + 1) {
                ok &= e.as_u64() < MAXV && e.as_u64() + 1 < s2.as_u64();
            }
        }
        i += 1;
    }
    ok
}

fn one_step(k: usize) -> (i128, i128) {
    let mut r = any_ranges(k);
    assert!(well_formed(&r) && r.0.interval_len() == k, "C08/ack_ranges.builder/well_formed");
    let lo: u64 = kani::any();
    let hi: u64 = kani::any();
    let q: u64 = kani::any(); // symbolic witness: "for every packet number q"
    kani::assume(lo <= hi && hi <= MAXV && q <= MAXV);
    let old_q = member(&r, q);
    let old_len = r.0.interval_len() as i128;
    let lowest = r.0.verif_get(0);

    let res = r.insert_packet_number_range(PacketNumberRange::new(pn_of(lo), pn_of(hi)));

    let new_q = member(&r, q);
    let (code, dmin, dmax) = match res {
        Ok(()) => (ar_ok(), 0, 0),
        Err(Error::LowestRangeDropped { min, max }) => (ar_lowest_dropped(), min.as_u64() as i128, max.as_u64() as i128),
        Err(Error::RangeInsertionFailed { min, max }) => (ar_insertion_failed(), min.as_u64() as i128, max.as_u64() as i128),
    };
    let (l, h, qq) = (lo as i128, hi as i128, q as i128);
    // C08: nothing appears that was not handed in
    assert!(ar_insert_subset_at(l, h, qq, old_q, new_q), "C08/ack_ranges.insert/subset_of_old_plus_new");
    // C16: exact view, eviction only of the lowest stored range, only when full, only for larger packet numbers
    assert!(ar_insert_view_at(l, h, code, dmin, dmax, qq, old_q, new_q), "C08/ack_ranges.insert/view_is_old_plus_new_minus_evicted");
    assert!(ar_insert_evicted_is_lowest_at(code, dmin, dmax, qq, old_q), "C08/ack_ranges.insert/evicted_is_lowest_stored_range");
    let first = match lowest {
        Some((s0, e0)) => (s0.as_u64() as i128, e0.as_u64() as i128),
        None => (-1, -1),
    };
    assert!(code != ar_lowest_dropped() || first == (dmin, dmax), "C08/ack_ranges.insert/evicted_report_is_first_interval");
    assert!(code != ar_insertion_failed() || (dmin, dmax) == (l, h), "C08/ack_ranges.insert/failed_reports_the_rejected_range");
    assert!(ar_insert_evicts_only_for_larger(code, dmax, l), "C08/ack_ranges.insert/evicts_only_for_larger_packet_numbers");
    assert!(ar_insert_error_only_when_full(code, old_len, LIMIT as i128), "C08/ack_ranges.insert/error_only_when_full");
    assert!(ar_insert_len_within_limit(r.0.interval_len() as i128, LIMIT as i128), "C08/ack_ranges.insert/len_within_limit");
    assert!(well_formed(&r), "C08/ack_ranges.insert/inv_preserved");
    // the code's own observers agree with the abstraction
    assert!(r.contains(&pn_of(q)) == new_q, "C08/ack_ranges.contains/is_membership");
    kani::cover!(true, "reach:end");
    (code, r.0.interval_len() as i128 - old_len)
}

//@ harness props=C08,C16 tier=thorough level=bounded timeout=900 bound="K=0 stored ranges, limit 2; all values and the witness symbolic over [0, 2^62)"
//@ fn ack::Ranges::insert_packet_number_range
//@ fn IntervalSet::insert
#[kani::proof]
#[kani::unwind(6)]
fn vq_c08_ack_ranges_insert_k0() {
// obligations asserted in one_step(): "C08/ack_ranges.builder/well_formed" "C08/ack_ranges.insert/subset_of_old_plus_new"
// "C08/ack_ranges.insert/view_is_old_plus_new_minus_evicted" "C08/ack_ranges.insert/evicted_is_lowest_stored_range"
// "C08/ack_ranges.insert/evicted_report_is_first_interval" "C08/ack_ranges.insert/failed_reports_the_rejected_range"
// "C08/ack_ranges.insert/evicts_only_for_larger_packet_numbers" "C08/ack_ranges.insert/error_only_when_full"
// "C08/ack_ranges.insert/len_within_limit" "C08/ack_ranges.insert/inv_preserved" "C08/ack_ranges.contains/is_membership"
    let (code, grew) = one_step(0);
    assert!(code == ar_ok() && grew == 1, "C08/ack_ranges.insert/empty_set_accepts_everything");
}

//@ harness props=C08,C16 tier=thorough level=bounded timeout=1700 bound="K=1 stored range, limit 2; all values and the witness symbolic over [0, 2^62)"
//@ fn ack::Ranges::insert_packet_number_range
//@ fn IntervalSet::insert
#[kani::proof]
#[kani::unwind(6)]
fn vq_c08_ack_ranges_insert_k1() {
// obligations asserted in one_step(): "C08/ack_ranges.builder/well_formed" "C08/ack_ranges.insert/subset_of_old_plus_new"
// "C08/ack_ranges.insert/view_is_old_plus_new_minus_evicted" "C08/ack_ranges.insert/evicted_is_lowest_stored_range"
// "C08/ack_ranges.insert/evicted_report_is_first_interval" "C08/ack_ranges.insert/failed_reports_the_rejected_range"
// "C08/ack_ranges.insert/evicts_only_for_larger_packet_numbers" "C08/ack_ranges.insert/error_only_when_full"
// "C08/ack_ranges.insert/len_within_limit" "C08/ack_ranges.insert/inv_preserved" "C08/ack_ranges.contains/is_membership"
    let (code, grew) = one_step(1);
    assert!(code == ar_ok(), "C08/ack_ranges.insert/below_capacity_accepts_everything");
    kani::cover!(grew == 1, "reach:new_range");
    kani::cover!(grew == 0, "reach:merged_or_contained");
}

//@ harness props=C08,C16 tier=thorough level=bounded timeout=1700 mem=24 bound="K=2 stored ranges = full (limit 2): eviction of the lowest range; all values and the witness symbolic over [0, 2^62)"
//@ fn ack::Ranges::insert_packet_number_range
//@ fn IntervalSet::insert
//@ fn IntervalSet::insert_front
//@ fn IntervalSet::pop_min
#[kani::proof]
#[kani::unwind(6)]
fn vq_c08_ack_ranges_insert_k2() {
// obligations asserted in one_step(): "C08/ack_ranges.builder/well_formed" "C08/ack_ranges.insert/subset_of_old_plus_new"
// "C08/ack_ranges.insert/view_is_old_plus_new_minus_evicted" "C08/ack_ranges.insert/evicted_is_lowest_stored_range"
// "C08/ack_ranges.insert/evicted_report_is_first_interval" "C08/ack_ranges.insert/failed_reports_the_rejected_range"
// "C08/ack_ranges.insert/evicts_only_for_larger_packet_numbers" "C08/ack_ranges.insert/error_only_when_full"
// "C08/ack_ranges.insert/len_within_limit" "C08/ack_ranges.insert/inv_preserved" "C08/ack_ranges.contains/is_membership"
    let (code, grew) = one_step(2);
    kani::cover!(grew == -1, "reach:two_ranges_bridged");
    kani::cover!(code == ar_lowest_dropped(), "reach:lowest_range_evicted");
    kani::cover!(code == ar_insertion_failed(), "reach:too_small_rejected");
    kani::cover!(code == ar_ok(), "reach:merged_when_full");
}
