// DRAFT, NOT REGISTERED (moved out of contracts/kani/dc/): stream::recv::State::on_stream_packet_impl, forged packet
// beyond max_data.  Status after ~1 h 10 min of effort:
//   * first obstacle: every function containing a `tracing::*!` macro crashes Kani 0.68's compiler (ICE at
//     kani-compiler/src/intrinsics.rs:243); solved by the three stubs below (probe: a harness with only
//     `tracing::error!(..)` then verifies in 0.3 s);
//   * with that, this harness compiles and runs, but CBMC did not finish within 941 s (driver timeout), no result.
//     Untested next steps: replace the real `buffer::Reassembler` by a minimal harness-side Duplex, drop
//     `ApplicationParams::new(.., Limits::default())` in favour of a decoded ApplicationParams, per-loop unwind bounds.
// To retry: move back to contracts/kani/dc/dc_recv_state.rs.
//@ inject crate=dc src=dc/s2n-quic-dc/src/stream/recv/state.rs
// Contract harness for stream::recv::State::on_stream_packet_impl, UDP receive path (property C18: "a packet is acted
// upon only if its authentication tag verifies ... leaves stream data ... untouched"): a stream packet whose AEAD open
// fails never changes the receiver state -- in particular it cannot reset the stream with MaxDataExceeded by claiming
// an offset/length beyond the flow-control limit.
//
// Stand-ins: `ForgedOpener` implements the crate's `crypto::open::Application` and rejects every packet (A-aead: the
// packet under test is, by hypothesis, not authentic); `NoControl` is the control-key stand-in (not reached for
// first transmissions); `CountingPublisher` implements `event::ConnectionPublisher` and counts events; the clock is
// s2n_quic_core's NoopClock; the output buffer is a real (empty) Reassembler, which the contracted path must not touch.
// The packet is produced by the real stream decoder from a wire image with a concrete shape and symbolic field values.
use super::*;
use core::cell::Cell;
use s2n_codec::DecoderBufferMut;
use s2n_quic_core::time::NoopClock;

struct ForgedOpener {
    calls: Cell<u32>,
}

impl crypto::open::Application for ForgedOpener {
    fn tag_len(&self) -> usize {
        16
    }

    fn decrypt(
        &self,
        _key_phase: s2n_quic_core::packet::KeyPhase,
        _packet_number: u64,
        _header: &[u8],
        _payload_in: &[u8],
        _tag: &[u8],
        _payload_out: &mut UninitSlice,
    ) -> crypto::open::Result {
        self.calls.set(self.calls.get() + 1);
        Err(crypto::open::Error::InvalidTag)
    }

    fn decrypt_in_place(
        &self,
        _key_phase: s2n_quic_core::packet::KeyPhase,
        _packet_number: u64,
        _header: &[u8],
        _payload: &mut [u8],
        _tag: &[u8],
    ) -> crypto::open::Result {
        self.calls.set(self.calls.get() + 1);
        Err(crypto::open::Error::InvalidTag)
    }
}

struct NoControl;

impl crypto::open::Control for NoControl {
    fn tag_len(&self) -> usize {
        16
    }

    fn verify(&self, _header: &[u8], _tag: &[u8]) -> crypto::open::Result {
        Err(crypto::open::Error::InvalidTag)
    }
}

impl crypto::open::control::Stream for NoControl {
    fn retransmission_tag(&self, _original: u64, _retransmission: u64, _tag_out: &mut [u8]) -> crypto::open::Result {
        Err(crypto::open::Error::InvalidTag)
    }
}

struct CountingPublisher {
    events: Cell<u32>,
}

impl event::ConnectionPublisher for CountingPublisher {
    fn on_stream_write_flushed(&self, _event: event::builder::StreamWriteFlushed) {
        self.events.set(self.events.get() + 1);
    }
    fn on_stream_write_fin_flushed(&self, _event: event::builder::StreamWriteFinFlushed) {
        self.events.set(self.events.get() + 1);
    }
    fn on_stream_write_blocked(&self, _event: event::builder::StreamWriteBlocked) {
        self.events.set(self.events.get() + 1);
    }
    fn on_stream_write_errored(&self, _event: event::builder::StreamWriteErrored) {
        self.events.set(self.events.get() + 1);
    }
    fn on_stream_write_key_updated(&self, _event: event::builder::StreamWriteKeyUpdated) {
        self.events.set(self.events.get() + 1);
    }
    fn on_stream_write_allocated(&self, _event: event::builder::StreamWriteAllocated) {
        self.events.set(self.events.get() + 1);
    }
    fn on_stream_write_shutdown(&self, _event: event::builder::StreamWriteShutdown) {
        self.events.set(self.events.get() + 1);
    }
    fn on_stream_write_socket_flushed(&self, _event: event::builder::StreamWriteSocketFlushed) {
        self.events.set(self.events.get() + 1);
    }
    fn on_stream_write_socket_blocked(&self, _event: event::builder::StreamWriteSocketBlocked) {
        self.events.set(self.events.get() + 1);
    }
    fn on_stream_write_socket_errored(&self, _event: event::builder::StreamWriteSocketErrored) {
        self.events.set(self.events.get() + 1);
    }
    fn on_stream_read_flushed(&self, _event: event::builder::StreamReadFlushed) {
        self.events.set(self.events.get() + 1);
    }
    fn on_stream_read_fin_flushed(&self, _event: event::builder::StreamReadFinFlushed) {
        self.events.set(self.events.get() + 1);
    }
    fn on_stream_read_blocked(&self, _event: event::builder::StreamReadBlocked) {
        self.events.set(self.events.get() + 1);
    }
    fn on_stream_read_errored(&self, _event: event::builder::StreamReadErrored) {
        self.events.set(self.events.get() + 1);
    }
    fn on_stream_read_key_updated(&self, _event: event::builder::StreamReadKeyUpdated) {
        self.events.set(self.events.get() + 1);
    }
    fn on_stream_read_shutdown(&self, _event: event::builder::StreamReadShutdown) {
        self.events.set(self.events.get() + 1);
    }
    fn on_stream_read_socket_flushed(&self, _event: event::builder::StreamReadSocketFlushed) {
        self.events.set(self.events.get() + 1);
    }
    fn on_stream_read_socket_blocked(&self, _event: event::builder::StreamReadSocketBlocked) {
        self.events.set(self.events.get() + 1);
    }
    fn on_stream_read_socket_errored(&self, _event: event::builder::StreamReadSocketErrored) {
        self.events.set(self.events.get() + 1);
    }
    fn on_stream_decrypt_packet(&self, _event: event::builder::StreamDecryptPacket) {
        self.events.set(self.events.get() + 1);
    }
    fn on_stream_packet_transmitted(&self, _event: event::builder::StreamPacketTransmitted) {
        self.events.set(self.events.get() + 1);
    }
    fn on_stream_probe_transmitted(&self, _event: event::builder::StreamProbeTransmitted) {
        self.events.set(self.events.get() + 1);
    }
    fn on_stream_packet_received(&self, _event: event::builder::StreamPacketReceived) {
        self.events.set(self.events.get() + 1);
    }
    fn on_stream_packet_lost(&self, _event: event::builder::StreamPacketLost) {
        self.events.set(self.events.get() + 1);
    }
    fn on_stream_packet_acked(&self, _event: event::builder::StreamPacketAcked) {
        self.events.set(self.events.get() + 1);
    }
    fn on_stream_packet_spuriously_retransmitted(&self, _event: event::builder::StreamPacketSpuriouslyRetransmitted) {
        self.events.set(self.events.get() + 1);
    }
    fn on_stream_max_data_received(&self, _event: event::builder::StreamMaxDataReceived) {
        self.events.set(self.events.get() + 1);
    }
    fn on_stream_control_packet_transmitted(&self, _event: event::builder::StreamControlPacketTransmitted) {
        self.events.set(self.events.get() + 1);
    }
    fn on_stream_control_packet_received(&self, _event: event::builder::StreamControlPacketReceived) {
        self.events.set(self.events.get() + 1);
    }
    fn on_stream_receiver_errored(&self, _event: event::builder::StreamReceiverErrored) {
        self.events.set(self.events.get() + 1);
    }
    fn on_stream_sender_errored(&self, _event: event::builder::StreamSenderErrored) {
        self.events.set(self.events.get() + 1);
    }
    fn on_stream_handshake_packet_rejected(&self, _event: event::builder::StreamHandshakePacketRejected) {
        self.events.set(self.events.get() + 1);
    }
    fn on_connection_closed(&self, _event: event::builder::ConnectionClosed) {
        self.events.set(self.events.get() + 1);
    }

    fn quic_version(&self) -> u32 {
        1
    }

    fn subject(&self) -> event::api::Subject {
        use s2n_quic_core::event::IntoEvent as _;
        event::builder::Subject::Connection { id: 0 }.into_event()
    }
}

// `tracing` macros crash Kani 0.68's compiler (ICE at kani-compiler/src/intrinsics.rs:243, same as the std::env case).
// The three entry points the macro expansion calls are stubbed by the behaviour of a process without any tracing
// subscriber (assumption A-env: log output is not part of the contract).
fn tracing_interest_never(_this: &tracing::callsite::DefaultCallsite) -> tracing::subscriber::Interest {
    tracing::subscriber::Interest::never()
}

fn tracing_is_enabled_never(_meta: &tracing::Metadata<'static>, _interest: tracing::subscriber::Interest) -> bool {
    false
}

fn tracing_dispatch_nothing<'a>(_metadata: &'static tracing::Metadata<'static>, _fields: &'a tracing::field::ValueSet<'_>)
where
    'a: 'a, // early-bound, like the impl lifetime of Event<'a>
{
}

const PAYLOAD: usize = 2;
const WIRE: usize = 1 + 16 + 1 + 1 + 2 + 1 + 1 + 1 + 8 + 1 + PAYLOAD + 16; // 51

//@ harness props=C18 tier=thorough level=bounded timeout=2400 bound="UDP transport features, fresh receiver with max_data 0 (every payload exceeds it), packet shape: unreliable stream id, no optional field, 2-byte payload; credential id, payload, tag and the 62-bit stream offset symbolic"
//@ fn stream::recv::state::State::on_stream_packet_impl
//@ fn stream::recv::state::State::precheck_stream_packet_impl
//@ fn stream::recv::state::State::ensure_max_data
//@ fn stream::recv::state::State::on_stream_packet_in_place
//@ fn stream::recv::packet::Packet::read_chunk
//@ fn packet::stream::decoder::Packet::decrypt_in_place
#[kani::proof]
#[kani::unwind(20)]
#[kani::stub(tracing::callsite::DefaultCallsite::interest, tracing_interest_never)]
#[kani::stub(tracing::__macro_support::__is_enabled, tracing_is_enabled_never)]
#[kani::stub(tracing::Event::dispatch, tracing_dispatch_nothing)]
fn vq_c18_recv_forged_packet_beyond_max_data_changes_nothing() {
    // ---- a forged stream packet claiming data beyond the flow-control limit ----
    let id: [u8; 16] = kani::any();
    let offset: u64 = kani::any();
    kani::assume(offset < (1u64 << 62));
    let payload: [u8; PAYLOAD] = kani::any();
    let tag: [u8; 16] = kani::any();
    let mut wire = [0u8; WIRE];
    wire[0] = 0; // stream tag, no optional fields, key phase 0
    let mut i = 0;
    while i < 16 {
        wire[1 + i] = id[i];
        i += 1;
    }
    wire[17] = 0; // key id 0
    wire[18] = 0; // wire version
    // wire[19..21]: unused
    wire[21] = 0b01; // stream id: queue 0, unreliable, bidirectional
    wire[22] = 0; // original packet number 0
    wire[23] = 0; // next expected control packet 0
    let ob = (offset | (0b11u64 << 62)).to_be_bytes(); // stream offset as an 8-byte varint
    let mut j = 0;
    while j < 8 {
        wire[24 + j] = ob[j];
        j += 1;
    }
    wire[32] = PAYLOAD as u8; // payload length
    wire[33] = payload[0];
    wire[34] = payload[1];
    let mut k = 0;
    while k < 16 {
        wire[35 + k] = tag[k];
        k += 1;
    }
    let (mut packet, _) = stream::decoder::Packet::decode(DecoderBufferMut::new(&mut wire[..]), (), 16).unwrap();
    let credentials = *packet.credentials();

    // ---- a fresh UDP receiver whose peer may not send any data yet ----
    let clock = NoopClock;
    let mut params = ApplicationParams::new(
        1200,
        &s2n_quic_core::transport::parameters::InitialFlowControlLimits::default(),
        &s2n_quic_core::connection::Limits::default(),
    );
    params.remote_max_data = VarInt::ZERO;
    params.local_recv_max_data = VarInt::ZERO;
    params.max_idle_timeout = None;
    let mut state = State::new(*packet.stream_id(), &params, TransportFeatures::UDP, &clock);
    assert!(!state.ensure_max_data(&packet), "C18/recv.builder/packet_exceeds_max_data");
    let should_transmit = state._should_transmit;
    let max_data = state.max_data;

    let opener = ForgedOpener { calls: Cell::new(0) };
    let publisher = CountingPublisher { events: Cell::new(0) };
    let mut out_buf = buffer::Reassembler::new();
    let r = state.on_stream_packet_impl(
        &opener,
        &NoControl,
        &credentials,
        &mut packet,
        ExplicitCongestionNotification::default(),
        AcceptState::Accepted,
        &clock,
        &mut out_buf,
        &publisher,
    );

    assert!(opener.calls.get() == 1, "C18/recv.on_stream_packet/authentication_attempted_before_acting");
    assert!(r.is_err(), "C18/recv.on_stream_packet/forged_packet_is_rejected");
    if let Err(e) = r {
        assert!(matches!(e.kind, error::Kind::Crypto(crypto::open::Error::InvalidTag)),
                "C18/recv.on_stream_packet/forged_packet_reports_the_crypto_error");
    }
    assert!(state.error.is_none(), "C18/recv.on_stream_packet/forged_packet_never_sets_the_error_state");
    assert!(state.state == Receiver::Recv, "C18/recv.on_stream_packet/forged_packet_never_resets_the_stream");
    assert!(state._should_transmit == should_transmit && state.max_data == max_data
                && state.next_expected_stream_offset == VarInt::ZERO && state.fin_ack_packet_number.is_none()
                && state.control_packet_number == 0,
            "C18/recv.on_stream_packet/forged_packet_leaves_flow_and_transmission_state_unchanged");
    assert!(state.stream_ack.packets.is_empty() && state.recovery_ack.packets.is_empty(),
            "C18/recv.on_stream_packet/forged_packet_is_not_acknowledged");
    assert!(publisher.events.get() == 0, "C18/recv.on_stream_packet/forged_packet_emits_no_event");
    use buffer::reader::Storage as _;
    assert!(out_buf.buffered_len() == 0, "C18/recv.on_stream_packet/forged_packet_delivers_no_data");
    kani::cover!(offset == (1u64 << 62) - 1, "reach:largest_offset");
    kani::cover!(offset == 0, "reach:offset_zero");
    kani::cover!(true, "reach:end");
}

