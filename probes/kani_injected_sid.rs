use super::*;

#[kani::proof]
fn stream_id_next_and_nth() {
    let max = crate::varint::MAX_VARINT_VALUE;
    let v: u64 = kani::any();
    kani::assume(v <= max);
    let id = StreamId::from_varint(VarInt::new(v).unwrap());
    match id.next_of_type() {
        Some(n) => {
            assert!(n.as_varint().as_u64() == v + 4, "C12/stream_id.next/same_type_plus_four");
            assert!(n.initiator() == id.initiator() && n.stream_type() == id.stream_type(), "C12/stream_id.next/type_preserved");
            assert!(n > id, "C12/stream_id.next/strictly_increasing");
        }
        None => assert!(v + 4 > max, "C12/stream_id.next/none_only_past_max"),
    }
    let n: u64 = kani::any();
    let client: bool = kani::any();
    let bidi: bool = kani::any();
    let initiator = if client { endpoint::Type::Client } else { endpoint::Type::Server };
    let ty = if bidi { StreamType::Bidirectional } else { StreamType::Unidirectional };
    let base: u64 = (if client { 0 } else { 1 }) + (if bidi { 0 } else { 2 });
    match StreamId::nth(initiator, ty, n) {
        Some(s) => {
            assert!(s.as_varint().as_u64() as u128 == 4 * n as u128 + base as u128, "C12/stream_id.nth/value");
            assert!(s.initiator() == initiator && s.stream_type() == ty, "C12/stream_id.nth/type_bits");
        }
        None => assert!(4 * n as u128 + base as u128 > max as u128, "C12/stream_id.nth/none_only_past_max"),
    }
}
