use super::*;

/// history of <= N events on the real Path; rx: bytes received, tx: one datagram transmitted
#[kani::proof]
#[kani::unwind(8)]
fn amplification_history_bound() {
    let mut path = testing::helper_path_server();
    let mut rx: u64 = 0;
    let mut tx: u64 = 0;
    let mut i = 0;
    while i < 6 {
        let is_rx: bool = kani::any();
        let n: u16 = kani::any();
        kani::assume(n >= 1 && n <= 1500);
        if is_rx {
            let _ = path.on_bytes_received(n as usize);
            rx += n as u64;
        } else if !path.at_amplification_limit() {
            // the statement: no datagram is *started* once tx >= 3*rx
            assert!(tx < 3 * rx, "C11/path.amplification/no_start_at_or_over_3x");
            path.on_bytes_transmitted(n as usize);
            tx += n as u64;
        }
        i += 1;
    }
    assert!(tx < 3 * rx + 1500 || rx == 0, "C11/path.amplification/total_below_3x_plus_one_datagram");
}
