use super::*;

#[kani::proof]
fn sfc_acquire_flow_control_window_contract() {
    let max = s2n_quic_core::varint::MAX_VARINT_VALUE;
    let conn_total: u64 = kani::any();
    let conn_used: u64 = kani::any();
    kani::assume(conn_total <= max && conn_used <= conn_total);
    let mut conn = OutgoingConnectionFlowController::new(VarInt::new(conn_total).unwrap());
    let got = conn.acquire_window(VarInt::new(conn_used).unwrap());
    assert!(got.as_u64() == conn_used);

    let msd: u64 = kani::any();
    let acquired: u64 = kani::any();
    let hr: u64 = kani::any();
    kani::assume(msd <= max && acquired <= hr && hr <= max);
    let mut fc = StreamFlowController::new(conn.clone(), VarInt::new(msd).unwrap());
    fc.acquired_connection_flow_controller_window = VarInt::new(acquired).unwrap();
    fc.highest_requested_connection_flow_control_window = VarInt::new(hr).unwrap();

    let end: u64 = kani::any();
    kani::assume(end <= max);
    let granted_before = conn.acquired_window().as_u64();
    let r = fc.acquire_flow_control_window(VarInt::new(end).unwrap()).as_u64();
    let granted_after = conn.acquired_window().as_u64();
    let acq = fc.acquired_connection_flow_controller_window.as_u64();
    assert!(r == core::cmp::min(msd, acq), "C03/sfc.acquire_flow_control_window/result_is_min");
    assert!(acq >= acquired, "C03/sfc.acquire_flow_control_window/acquired_monotone");
    assert!(acq - acquired == granted_after - granted_before, "C03/sfc.acquire_flow_control_window/books_exactly_what_connection_granted");
    assert!(acq <= core::cmp::max(acquired, core::cmp::max(hr, end)), "C03/sfc.acquire_flow_control_window/never_more_than_requested");
    assert!(granted_after <= conn_total, "C03/ocfc/granted_le_total");
    assert!(fc.max_stream_data.as_u64() == msd, "C03/sfc.acquire_flow_control_window/frame_max_stream_data");
}
