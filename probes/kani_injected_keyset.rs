use super::*;
use crate::crypto::{key::testing::Key as TestKey, ProtectedPayload};

#[kani::proof]
fn keyset_encrypt_never_exceeds_limit() {
    let conf: u64 = kani::any();
    let window: u64 = kani::any();
    let key = TestKey { confidentiality_limit: conf, ..Default::default() };
    let mut limits = limited::Limits::default();
    limits.key_update_window = window;
    let mut ks = KeySet::new(key, limits);
    // arbitrary reachable counters: inv enc <= conf for both keys
    let e0: u64 = kani::any();
    let e1: u64 = kani::any();
    kani::assume(e0 <= conf && e1 <= conf);
    ks.crypto.0[0].verif_set_encrypted(e0);
    ks.crypto.0[1].verif_set_encrypted(e1);
    let phase_one: bool = kani::any();
    if phase_one { ks.key_phase = KeyPhase::One; }

    let active = if phase_one { e1 } else { e0 };
    let other = if phase_one { e0 } else { e1 };
    let needs_update = active > conf.saturating_sub(window);
    let phase = ks.encryption_phase();
    assert!((phase != ks.key_phase()) == needs_update, "C15/keyset.encryption_phase/next_iff_in_update_window");
    let used_before = if needs_update { other } else { active };

    let mut enc = [0u8; 16];
    let mut dec = [0u8; 16];
    let buffer = EncoderBuffer::new(&mut enc);
    let r = ks.encrypt_packet(buffer, |buffer, _key, _phase| Ok((ProtectedPayload::new(0, &mut dec), buffer)));
    let used_after = ks.crypto[phase].encrypted_packets();
    if r.is_ok() {
        assert!(used_before < conf, "C15/keyset.encrypt/ok_only_below_limit");
        assert!(used_after == used_before + 1, "C15/keyset.encrypt/counted_once");
    } else {
        assert!(used_before >= conf, "C15/keyset.encrypt/err_only_at_limit");
        assert!(used_after == used_before, "C15/keyset.encrypt/err_not_counted");
    }
    assert!(ks.crypto.0[0].encrypted_packets() <= conf && ks.crypto.0[1].encrypted_packets() <= conf, "C15/keyset.encrypt/never_exceeds_limit");
    kani::cover!(r.is_ok(), "reach:ok");
    kani::cover!(r.is_err(), "reach:limit");
}
