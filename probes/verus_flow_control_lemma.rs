use vstd::prelude::*;
verus! {

pub struct Ocfc { pub total: int, pub avail: int }

pub open spec fn wf(s: Ocfc) -> bool { 0 <= s.avail <= s.total <= 0x3fff_ffff_ffff_ffff }

// contract of acquire_window as proved by Kani on the real code
pub open spec fn acquire_window_post(pre: Ocfc, desired: int, post: Ocfc, r: int) -> bool {
    r <= desired && r <= pre.avail && post.avail == pre.avail - r && post.total == pre.total && 0 <= r
}
pub open spec fn on_max_data_post(pre: Ocfc, m: int, post: Ocfc) -> bool {
    post.total == if m > pre.total { m } else { pre.total }
    && post.total - post.avail == pre.total - pre.avail
}

// ghost history: granted = sum of all acquire results, limit = max of all MAX_DATA seen
pub struct Ghost { pub granted: int, pub limit: int }
pub open spec fn inv(s: Ocfc, g: Ghost) -> bool { wf(s) && g.granted == s.total - s.avail && s.total == g.limit }

proof fn lemma_acquire(pre: Ocfc, g: Ghost, desired: int, post: Ocfc, r: int)
    requires inv(pre, g), 0 <= desired, acquire_window_post(pre, desired, post, r)
    ensures inv(post, Ghost { granted: g.granted + r, limit: g.limit }), g.granted + r <= g.limit
{}

proof fn lemma_max_data(pre: Ocfc, g: Ghost, m: int, post: Ocfc)
    requires inv(pre, g), 0 <= m <= 0x3fff_ffff_ffff_ffff, on_max_data_post(pre, m, post)
    ensures inv(post, Ghost { granted: g.granted, limit: if m > g.limit { m } else { g.limit } })
{}

}
fn main() {}
