use super::*;

/// Buffer/View: bytes read for any interval equal the bytes pushed at those offsets,
/// independent of chunking and of how much was released.
#[kani::proof]
#[kani::unwind(8)]
fn buffer_view_bytes_eq_stream() {
    const N: usize = 6;
    let stream: [u8; N] = kani::any();
    // chunking: split points 0 < c1 <= c2 <= N  (up to 3 chunks)
    let c1: usize = kani::any();
    let c2: usize = kani::any();
    kani::assume(1 <= c1 && c1 <= c2 && c2 <= N);
    let mut b = Buffer::default();
    b.push(Bytes::copy_from_slice(&stream[..c1]));
    if c2 > c1 { b.push(Bytes::copy_from_slice(&stream[c1..c2])); }
    if N > c2 { b.push(Bytes::copy_from_slice(&stream[c2..])); }
    assert!(b.total_len().as_u64() == N as u64);
    // release a prefix
    let rel: usize = kani::any();
    kani::assume(rel <= N - 1);
    b.release(VarInt::new(rel as u64).unwrap());
    assert!(b.head().as_u64() == rel as u64, "C12/buffer.release/head");
    // view an arbitrary interval in [head, total)
    let a: usize = kani::any();
    let e: usize = kani::any();
    kani::assume(rel <= a && a < e && e <= N);
    let iv: Interval<VarInt> = (VarInt::new(a as u64).unwrap()..VarInt::new(e as u64).unwrap()).into();
    let mut viewer = b.viewer();
    let view = viewer.next_view(iv, true);
    assert!(view.len().as_u64() == (e - a) as u64, "C12/buffer.view/len");
    assert!(view.is_fin() == (e == N), "C12/buffer.view/fin_iff_reaches_total");
    let mut got = 0usize;
    for chunk in view.iter::<&[u8]>() {
        let mut j = 0;
        while j < N {
            if j < chunk.len() { assert!(chunk[j] == stream[a + got + j], "C12/buffer.view/bytes_eq_stream"); }
            j += 1;
        }
        got += chunk.len();
    }
    assert!(got == e - a, "C12/buffer.view/total_len");
}
