use super::*;

#[kani::proof]
fn injected_on_max_data() {
    let total: u64 = kani::any();
    let avail: u64 = kani::any();
    kani::assume(total <= s2n_quic_core::varint::MAX_VARINT_VALUE && avail <= total);
    let mut fc = OutgoingConnectionFlowControllerImpl::new(VarInt::new(total).unwrap());
    fc.available_window = VarInt::new(avail).unwrap();
    let m: u64 = kani::any();
    kani::assume(m <= s2n_quic_core::varint::MAX_VARINT_VALUE);
    fc.on_max_data(MaxData { maximum_data: VarInt::new(m).unwrap() });
    let nt = fc.total_available_window.as_u64();
    let na = fc.available_window.as_u64();
    assert!(nt == core::cmp::max(total, m), "C03/ocfc.on_max_data/total_is_max");
    assert!(nt - na == total - avail, "C03/ocfc.on_max_data/granted_unchanged");
    kani::cover!(m > total, "reach:increase");
    kani::cover!(m <= total, "reach:ignored");
}
