#[cfg(kani)]
mod verif_kani {
    use super::*;

    const N: usize = 8;

    #[kani::proof]
    #[kani::unwind(10)]
    fn two_writes_then_pop_4092() { two_writes_then_pop_at(4092) }

    #[kani::proof]
    #[kani::unwind(10)]
    fn two_writes_then_pop() {
        let base: u64 = kani::any();
        kani::assume(base <= (1u64 << 62) - 1 - N as u64);
        two_writes_then_pop_at(base)
    }

    fn two_writes_then_pop_at(base: u64) {
        let stream: [u8; N] = kani::any();
        let mut r = Reassembler::new();
        if base > 0 {
            assert!(r.skip(VarInt::new(base).unwrap()).is_ok());
        }
        let mut mask: u16 = 0;
        let mut w = 0;
        while w < 2 {
            let off: usize = kani::any();
            let len: usize = kani::any();
            kani::assume(off < N && len >= 1 && len <= 3 && off + len <= N);
            let res = r.write_at(VarInt::new(base + off as u64).unwrap(), &stream[off..off + len]);
            assert!(res.is_ok());
            let mut i = 0;
            while i < 3 {
                if i < len { mask |= 1 << (off + i); }
                i += 1;
            }
            w += 1;
        }
        // model: contiguous prefix length
        let mut k = 0;
        while k < N && (mask >> k) & 1 == 1 { k += 1; }
        assert!(r.len() == k);
        assert!(r.consumed_len() == base);
        let mut got = 0;
        let mut rounds = 0;
        while rounds < 3 {
            if let Some(chunk) = r.pop() {
                let mut j = 0;
                while j < N {
                    if j < chunk.len() {
                        assert!(got + j < k);
                        assert!(chunk[j] == stream[got + j]);
                    }
                    j += 1;
                }
                got += chunk.len();
            }
            rounds += 1;
        }
        assert!(got == k);
    }
}
