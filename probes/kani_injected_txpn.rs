use super::*;
use s2n_quic_core::{packet::number::PacketNumberRange, time::clock::testing as time};

#[kani::proof]
fn tx_packet_numbers_contract() {
    let max = s2n_quic_core::varint::MAX_VARINT_VALUE;
    let space = PacketNumberSpace::ApplicationData;
    let now = time::now();
    let mut t = TxPacketNumbers::new(space, now);
    let next: u64 = kani::any();
    let la: u64 = kani::any();
    kani::assume(next < max && la <= next);
    t.next = space.new_packet_number(VarInt::new(next).unwrap());
    t.largest_sent_acked = (space.new_packet_number(VarInt::new(la).unwrap()), now);
    // transmit the next packet number
    let pn = t.next();
    t.on_transmit(pn);
    assert!(t.next().as_u64() == next + 1, "C08/tx_packet_numbers.on_transmit/strictly_increasing");
    // an ACK for an arbitrary range
    let lo: u64 = kani::any();
    let hi: u64 = kani::any();
    kani::assume(lo <= hi && hi <= max);
    let range = PacketNumberRange::new(space.new_packet_number(VarInt::new(lo).unwrap()), space.new_packet_number(VarInt::new(hi).unwrap()));
    let r = t.on_packet_ack(now, &range, space.new_packet_number(VarInt::new(lo).unwrap()));
    if hi > next { assert!(r.is_err(), "C08/tx_packet_numbers.on_packet_ack/unsent_rejected"); }
    if r.is_ok() {
        assert!(hi <= next, "C08/tx_packet_numbers.on_packet_ack/ok_only_sent");
        assert!(t.largest_sent_acked.0.as_u64() == core::cmp::max(la, hi), "C08/tx_packet_numbers.on_packet_ack/largest_monotone");
        assert!(t.largest_sent_acked.0.as_u64() < t.next().as_u64(), "C08/tx_packet_numbers/largest_acked_below_next");
    }
}
