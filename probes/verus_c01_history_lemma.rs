use vstd::prelude::*;
verus! {

// abstract view of the reassembler as projected by the contract table
pub struct Rv {
    pub recv: Map<int, u8>,   // offset -> byte, only offsets >= start are kept
    pub start: int,           // consumed prefix
    pub fin: Option<int>,     // final size if known
}

pub open spec fn consistent(s: Seq<u8>, off: int, data: Seq<u8>, fin: bool) -> bool {
    0 <= off && off + data.len() <= s.len()
    && (forall|i: int| 0 <= i < data.len() ==> #[trigger] data[i] == s[off + i])
    && (fin ==> off + data.len() == s.len())
}

// ensures-text of Reassembler::write_at / write_at_fin (generated from the table)
pub open spec fn write_post(old: Rv, off: int, data: Seq<u8>, fin: bool, new: Rv, ok: bool) -> bool {
    if ok {
        new.start == old.start
        && (forall|o: int| #[trigger] new.recv.dom().contains(o) <==>
              (old.recv.dom().contains(o) || (off <= o < off + data.len() && o >= old.start)))
        && (forall|o: int| #[trigger] new.recv.dom().contains(o) && old.recv.dom().contains(o) ==> new.recv[o] == old.recv[o])
        && (forall|o: int| #[trigger] new.recv.dom().contains(o) && !old.recv.dom().contains(o) ==> new.recv[o] == data[o - off])
        && new.fin == (if fin { Some(off + data.len()) } else { old.fin })
        && (fin && old.fin.is_some() ==> old.fin == Some(off + data.len()))
    } else {
        new == old
    }
}

// ensures-text of pop_watermarked
pub open spec fn pop_post(old: Rv, new: Rv, chunk: Option<Seq<u8>>) -> bool {
    match chunk {
        None => new == old && !old.recv.dom().contains(old.start),
        Some(c) => c.len() >= 1
            && new.start == old.start + c.len()
            && (forall|i: int| 0 <= i < c.len() ==> old.recv.dom().contains(old.start + i) && #[trigger] c[i] == old.recv[old.start + i])
            && new.fin == old.fin
            && (forall|o: int| #[trigger] new.recv.dom().contains(o) <==> (old.recv.dom().contains(o) && o >= new.start))
            && (forall|o: int| #[trigger] new.recv.dom().contains(o) ==> new.recv[o] == old.recv[o]),
    }
}

pub open spec fn inv(s: Seq<u8>, r: Rv, delivered: Seq<u8>) -> bool {
    0 <= r.start <= s.len()
    && delivered == s.subrange(0, r.start)
    && (forall|o: int| #[trigger] r.recv.dom().contains(o) ==> r.start <= o < s.len() && r.recv[o] == s[o])
    && (r.fin.is_some() ==> r.fin == Some(s.len() as int))
}

proof fn write_preserves_inv(s: Seq<u8>, old: Rv, delivered: Seq<u8>, off: int, data: Seq<u8>, fin: bool, new: Rv, ok: bool)
    requires inv(s, old, delivered), consistent(s, off, data, fin), write_post(old, off, data, fin, new, ok)
    ensures inv(s, new, delivered)
{
    if ok {
        assert forall|o: int| #[trigger] new.recv.dom().contains(o) implies new.start <= o < s.len() && new.recv[o] == s[o] by {
            if !old.recv.dom().contains(o) {
                let i = o - off;
                assert(data[i] == s[off + i]);
            }
        }
    }
}

proof fn pop_preserves_inv(s: Seq<u8>, old: Rv, delivered: Seq<u8>, new: Rv, chunk: Option<Seq<u8>>)
    requires inv(s, old, delivered), pop_post(old, new, chunk)
    ensures inv(s, new, if chunk.is_some() { delivered + chunk.unwrap() } else { delivered })
{
    if let Some(c) = chunk {
        let d2 = delivered + c;
        assert(old.start + c.len() <= s.len()) by {
            let last = c.len() - 1;
            assert(c[last] == old.recv[old.start + last]);
            assert(old.recv.dom().contains(old.start + last));
        }
        assert(d2 =~= s.subrange(0, new.start)) by {
            assert forall|i: int| 0 <= i < d2.len() implies d2[i] == s.subrange(0, new.start)[i] by {
                if i >= delivered.len() {
                    let j = i - delivered.len();
                    assert(c[j] == old.recv[old.start + j]);
                }
            }
        }
    }
}

proof fn clean_end_means_complete(s: Seq<u8>, r: Rv, delivered: Seq<u8>)
    requires inv(s, r, delivered), r.fin == Some(r.start)
    ensures delivered == s
{
    assert(s.subrange(0, s.len() as int) =~= s);
}

}
fn main() {}
