use vstd::prelude::*;
verus! {

// ---------- C15: per-key usage never exceeds the confidentiality limit, for all histories ----------
pub struct Key { pub enc: int, pub limit: int }
pub open spec fn key_inv(k: Key) -> bool { 0 <= k.enc <= k.limit }
// predicates proved on the real code by Kani (C15/keyset.encrypt/*)
pub open spec fn encrypt_post(old: Key, new: Key, ok: bool) -> bool {
    new.limit == old.limit
    && (ok ==> old.enc < old.limit && new.enc == old.enc + 1)
    && (!ok ==> old.enc >= old.limit && new.enc == old.enc)
}
pub open spec fn c15_run_ok(trace: Seq<(Key, bool)>, start: Key) -> bool
    decreases trace.len()
{
    if trace.len() == 0 { true } else {
        encrypt_post(start, trace[0].0, trace[0].1) && c15_run_ok(trace.subrange(1, trace.len() as int), trace[0].0)
    }
}
pub open spec fn c15_count_ok(trace: Seq<(Key, bool)>) -> int
    decreases trace.len()
{
    if trace.len() == 0 { 0 } else { (if trace[0].1 { 1int } else { 0int }) + c15_count_ok(trace.subrange(1, trace.len() as int)) }
}
// for every history of encrypt calls on one key: successful encryptions <= limit - initial use
proof fn c15_never_exceeds(trace: Seq<(Key, bool)>, start: Key)
    requires key_inv(start), c15_run_ok(trace, start)
    ensures start.enc + c15_count_ok(trace) <= start.limit,
            trace.len() > 0 ==> key_inv(trace.last().0)
    decreases trace.len()
{
    if trace.len() > 0 {
        let rest = trace.subrange(1, trace.len() as int);
        c15_never_exceeds(rest, trace[0].0);
        if rest.len() > 0 { assert(rest.last() == trace.last()); }
    }
}

// ---------- C19 sender: key ids issued are strictly increasing across next_key_id / stale-key updates ----------
pub enum SOp { Next, Stale(int) }
pub open spec fn s_step(cur: int, op: SOp, new: int, issued: Option<int>) -> bool {
    match op {
        SOp::Next => issued == Some(cur) && new == cur + 1,          // C19/sender.next_key_id/*
        SOp::Stale(m) => issued.is_none() && new == if m > cur { m } else { cur },   // C19/sender.stale_key/monotone
    }
}
proof fn c19_sender_step(cur: int, last_issued: int, op: SOp, new: int, issued: Option<int>)
    requires last_issued < cur, s_step(cur, op, new, issued)
    ensures issued.is_some() ==> issued.unwrap() > last_issued,
            (if issued.is_some() { issued.unwrap() } else { last_issued }) < new
{}

// ---------- C08: ACK ranges only ever name processed packets ----------
pub open spec fn processed_post(old_r: Set<int>, pn: int, new_r: Set<int>) -> bool { new_r.subset_of(old_r.insert(pn)) }
pub open spec fn acked_post(old_r: Set<int>, new_r: Set<int>) -> bool { new_r.subset_of(old_r) }
proof fn c08_ranges_subset_processed(ranges: Set<int>, processed: Set<int>, pn: int, new_r: Set<int>)
    requires ranges.subset_of(processed), processed_post(ranges, pn, new_r)
    ensures new_r.subset_of(processed.insert(pn))
{}
proof fn c08_ack_removes_only(ranges: Set<int>, processed: Set<int>, new_r: Set<int>)
    requires ranges.subset_of(processed), acked_post(ranges, new_r)
    ensures new_r.subset_of(processed)
{}

// ---------- C11: the stated amplification bound is NOT implied by the counter contracts ----------
pub struct Amp { pub allowance: int }
pub open spec fn rx_post(old: Amp, n: int, new: Amp) -> bool { new.allowance == old.allowance + 3 * n }
pub open spec fn tx_post(old: Amp, n: int, new: Amp) -> bool { new.allowance == if old.allowance >= n { old.allowance - n } else { 0 } }
// what the contracts do give: allowance >= 3*rx - tx
proof fn c11_weak_invariant_tx(old: Amp, rx: int, tx: int, n: int, new: Amp)
    requires old.allowance >= 3 * rx - tx, old.allowance >= 0, n >= 0, tx_post(old, n, new)
    ensures new.allowance >= 3 * rx - (tx + n), new.allowance >= 0
{}
// what the property states: a datagram is only started while tx < 3*rx.  Expected to FAIL.
proof fn c11_stated_bound_tx(old: Amp, rx: int, tx: int, n: int, new: Amp)
    requires old.allowance >= 3 * rx - tx, old.allowance > 0, n > 0, tx_post(old, n, new)
    ensures tx < 3 * rx
{}

}
fn main() {}
