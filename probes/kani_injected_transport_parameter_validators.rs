use super::*;

fn spec_max_ack_delay_valid(v: u64) -> bool { v < (1u64 << 14) }          // RFC 9000 18.2: "Values of 2^14 or greater are invalid"
fn spec_ack_delay_exponent_valid(v: u8) -> bool { v <= 20 }
fn spec_active_cid_limit_valid(v: u64) -> bool { v >= 2 }
fn spec_max_udp_payload_valid(v: u64) -> bool { v >= 1200 }               // only "below 1200" is declared invalid
fn spec_max_streams_valid(v: u64) -> bool { v <= (1u64 << 60) }

#[kani::proof]
fn tp_max_ack_delay_validate() {
    let v: u64 = kani::any();
    kani::assume(v <= crate::varint::MAX_VARINT_VALUE);
    let p = MaxAckDelay(VarInt::new(v).unwrap());
    assert!(p.validate().is_ok() == spec_max_ack_delay_valid(v), "C14/max_ack_delay.validate/iff_spec");
}

#[kani::proof]
fn tp_others_validate() {
    let v: u64 = kani::any();
    kani::assume(v <= crate::varint::MAX_VARINT_VALUE);
    let e: u8 = kani::any();
    assert!(AckDelayExponent(e).validate().is_ok() == spec_ack_delay_exponent_valid(e), "C14/ack_delay_exponent.validate/iff_spec");
    assert!(ActiveConnectionIdLimit(VarInt::new(v).unwrap()).validate().is_ok() == spec_active_cid_limit_valid(v), "C14/active_connection_id_limit.validate/iff_spec");
    assert!(InitialMaxStreamsBidi(VarInt::new(v).unwrap()).validate().is_ok() == spec_max_streams_valid(v), "C14/initial_max_streams_bidi.validate/iff_spec");
    assert!(InitialMaxStreamsUni(VarInt::new(v).unwrap()).validate().is_ok() == spec_max_streams_valid(v), "C14/initial_max_streams_uni.validate/iff_spec");
    assert!(MaxUdpPayloadSize(VarInt::new(v).unwrap()).validate().is_ok() == spec_max_udp_payload_valid(v), "C14/max_udp_payload_size.validate/iff_spec");
}
