use super::*;
use crate::time::{clock::testing as time};

fn nanos(d: Duration) -> u128 { d.as_nanos() }

#[kani::proof]
fn rtt_loss_time_threshold_formula() {
    let srtt_us: u32 = kani::any();
    let latest_us: u32 = kani::any();
    kani::assume(srtt_us >= 1 && latest_us >= 1);
    let mut e = RttEstimator::new(Duration::from_micros(srtt_us as u64));
    e.latest_rtt = Duration::from_micros(latest_us as u64);
    let thr = e.loss_time_threshold();
    let m = core::cmp::max(nanos(e.smoothed_rtt), nanos(e.latest_rtt));
    let expect = core::cmp::max(m + m / 8, 1_000_000);
    assert!(nanos(thr) == expect, "C09/rtt.loss_time_threshold/formula");
}

#[kani::proof]
fn loss_detect_iff_rfc() {
    use crate::{packet::number::PacketNumberSpace, recovery::loss, varint::VarInt};
    let pn: u64 = kani::any();
    let la: u64 = kani::any();
    kani::assume(la <= crate::varint::MAX_VARINT_VALUE && pn < la);
    let space = PacketNumberSpace::ApplicationData;
    let pn_ = space.new_packet_number(VarInt::new(pn).unwrap());
    let la_ = space.new_packet_number(VarInt::new(la).unwrap());
    let t0 = time::now();
    let sent_off: u32 = kani::any();
    let now_off: u32 = kani::any();
    let thr: u32 = kani::any();
    let sent = t0 + Duration::from_micros(sent_off as u64);
    let now = t0 + Duration::from_micros(now_off as u64);
    let thr_d = Duration::from_micros(thr as u64);
    let out = loss::detect(thr_d, sent, loss::K_PACKET_THRESHOLD, pn_, la_, now);
    let rfc_lost = la - pn >= 3 || (now_off as u64) >= sent_off as u64 + thr as u64;
    assert!((out == loss::Outcome::Lost) == rfc_lost, "C09/loss.detect/lost_iff_rfc");
}

#[kani::proof]
fn rtt_update_bounds() {
    let srtt_us: u32 = kani::any();
    let sample_us: u32 = kani::any();
    let ack_delay_us: u32 = kani::any();
    kani::assume(srtt_us >= 1);
    let mut e = RttEstimator::new(Duration::from_micros(srtt_us as u64));
    let now = time::now();
    // first sample initialises
    e.update_rtt(Duration::ZERO, Duration::from_micros(srtt_us as u64), now, true, crate::packet::number::PacketNumberSpace::ApplicationData);
    let old_srtt = nanos(e.smoothed_rtt);
    let old_min = nanos(e.min_rtt);
    e.update_rtt(Duration::from_micros(ack_delay_us as u64), Duration::from_micros(sample_us as u64), now, true, crate::packet::number::PacketNumberSpace::ApplicationData);
    let latest = nanos(e.latest_rtt);
    assert!(latest == core::cmp::max(sample_us as u128 * 1000, 1000), "C09/rtt.update/latest_clamped");
    assert!(nanos(e.min_rtt) == core::cmp::min(old_min, latest), "C09/rtt.update/min");
    let lo = core::cmp::min(old_srtt, nanos(e.min_rtt));
    let hi = core::cmp::max(old_srtt, latest);
    assert!(nanos(e.smoothed_rtt) + 14 >= lo && nanos(e.smoothed_rtt) <= hi, "C09/rtt.update/srtt_within_samples_14ns");
}
