// Drafts of the C18 encode->decode round-trip harnesses for dc control and datagram packets (NOT registered; see
// contracts/kani/dc/dc_pkt_control.rs and dc_pkt_datagram.rs for the helpers they use: _pkt_common.rs, eq_small, ...).
// Measured on the shared development machine (load average 35-70, VERIF_JOBS=3, Kani 0.68):
//   vq_c18_control_round_trip (symbolic shape, hl<=2, cl<=4)              timeout 2400 s
//   vq_c18_control_round_trip_{all_fields,stream_ack,minimal} (concrete) timeout 2400 s each
//   vq_c18_datagram_round_trip (symbolic shape)                           timeout 2400 s
//   vq_c18_datagram_round_trip_all_fields                                 timeout 2400 s
//   vq_c18_datagram_round_trip_connected                                  all obligations discharged, 2296 s
//   vq_c18_datagram_round_trip_minimal                                    all obligations discharged, 1735 s
// (in the two successful runs `assert!(false, "...encoded_packet_decodes")` was unreachable, i.e. the encoded packet
//  always decodes; the driver counts an unreachable named assertion as vacuous, it would have to be rephrased.)

// ---------------- control (was in dc_pkt_control.rs, after `use` of control::encoder and s2n_codec::EncoderBuffer) ----
/// Round trip for one concrete packet *shape* (which optional fields are present, application-header and
/// control-data lengths); every integer field and every byte is symbolic and full-domain.  A harness over symbolic
/// shapes (all of hl <= 2, cl <= 4, optional fields) did not finish in 40 min on the development machine.
fn control_round_trip(has_queue: bool, has_stream: bool, hl: usize, cl: usize) {
    let source_queue_id = if has_queue { Some(any_varint()) } else { None };
    let stream_id = if has_stream { any_stream_id_some() } else { None };
    let packet_number = any_varint();
    let credentials = any_credentials();
    let hdr: [u8; HMAX] = kani::any();
    let cd: [u8; CMAX] = kani::any();
    let key = StandInKey::new();
    let mut buf = [0u8; BUF];
    let base = buf.as_ptr();

    let mut header_storage: &[u8] = &hdr[..hl];
    let control_data: &[u8] = &cd[..cl];
    // call-site facts (stream/recv/state.rs, stream/send/...): header_len == header.len(), control_data_len == encoding size
    let len = encoder::encode(
        EncoderBuffer::new(&mut buf),
        source_queue_id,
        stream_id,
        packet_number,
        VarInt::new(hl as u64).unwrap(),
        &mut header_storage,
        VarInt::new(cl as u64).unwrap(),
        &control_data,
        &key,
        &credentials,
    );

    // encoded length as announced by the wire format
    let sid = stream_id_wire(stream_id);
    let expect_len = 1 + 16 + varint_len(credentials.key_id.as_u64()) + 1
        + (match sid { Some(v) => varint_len(v), None => 0 })
        + (match source_queue_id { Some(v) => varint_len(v.as_u64()), None => 0 })
        + varint_len(packet_number.as_u64())
        + varint_len(cl as u64)
        + (if hl > 0 { varint_len(hl as u64) + hl } else { 0 })
        + cl
        + TAGLEN;
    assert!(len == expect_len, "C18/control.encode/encoded_len_as_announced");
    // the MAC is computed over everything but the tag, and written to the last 16 bytes
    assert!(key.signed_header.get() == (base, len - TAGLEN), "C18/control.encode/mac_covers_every_byte_before_the_tag");
    assert!(key.signed_tag.get() == (unsafe { base.add(len - TAGLEN) }, TAGLEN), "C18/control.encode/tag_is_the_last_16_bytes");
    // tag byte: independent transcription of the bit layout 0101 Q S H 0
    let tag_byte = 0b0101_0000u8
        | (if source_queue_id.is_some() { 0b1000 } else { 0 })
        | (if stream_id.is_some() { 0b0100 } else { 0 })
        | (if hl > 0 { 0b0010 } else { 0 });
    assert!(buf[0] == tag_byte, "C18/control.encode/tag_byte_layout");

    let (packet, rest) = match Packet::decode(DecoderBufferMut::new(&mut buf[..len]), (), TAGLEN) {
        Ok(v) => v,
        Err(_) => {
            assert!(false, "C18/control.round_trip/encoded_packet_decodes");
            return;
        }
    };
    assert!(rest.is_empty(), "C18/control.round_trip/nothing_left_over");
    assert!(id_of(&packet.credentials().id) == id_of(&credentials.id) && packet.credentials().key_id == credentials.key_id,
            "C18/control.round_trip/credentials");
    assert!(packet.wire_version() == WireVersion::ZERO, "C18/control.round_trip/wire_version");
    assert!(opt_u64(packet.source_queue_id()) == opt_u64(source_queue_id), "C18/control.round_trip/source_queue_id");
    assert!(stream_id_wire(packet.stream_id().copied()) == sid, "C18/control.round_trip/stream_id");
    assert!(packet.packet_number() == packet_number, "C18/control.round_trip/packet_number");
    assert!(eq_small(packet.application_header(), &hdr[..hl]), "C18/control.round_trip/application_header");
    assert!(eq_small(packet.control_data(), &cd[..cl]), "C18/control.round_trip/control_data");
    assert!(packet.header().as_ptr() == base && packet.header().len() == len - TAGLEN && packet.auth_tag().len() == TAGLEN
                && packet.auth_tag().as_ptr() == unsafe { base.add(len - TAGLEN) } && packet.total_len() == len,
            "C18/control.round_trip/header_and_tag_partition_the_packet");
    use crate::crypto::open::Control as _;
    assert!(key.verify(packet.header(), packet.auth_tag()).is_ok(), "C18/control.round_trip/sealed_packet_verifies");

    kani::cover!(len == expect_len && packet_number.as_u64() == MAXV, "reach:largest_packet_number");
    kani::cover!(true, "reach:end");
}

//@ harness props=C18 tier=thorough level=bounded timeout=2400 bound="shape: source queue id + stream id present, application header 2 bytes, control data 4 bytes; all integer fields and bytes full-domain"
//@ fn packet::control::encoder::encode
//@ fn packet::control::decoder::Packet::decode
#[kani::proof]
#[kani::unwind(8)]
fn vq_c18_control_round_trip_all_fields() {
    control_round_trip(true, true, HMAX, CMAX);
}

//@ harness props=C18 tier=thorough level=bounded timeout=2400 bound="shape: stream id only, no application header, control data 4 bytes (stream/recv/state.rs call site); all integer fields and bytes full-domain"
//@ fn packet::control::encoder::encode
//@ fn packet::control::decoder::Packet::decode
#[kani::proof]
#[kani::unwind(8)]
fn vq_c18_control_round_trip_stream_ack() {
    control_round_trip(false, true, 0, CMAX);
}

//@ harness props=C18 tier=thorough level=bounded timeout=2400 bound="shape: no optional field, no application header, no control data; all integer fields full-domain"
//@ fn packet::control::encoder::encode
//@ fn packet::control::decoder::Packet::decode
#[kani::proof]
#[kani::unwind(8)]
fn vq_c18_control_round_trip_minimal() {
    control_round_trip(false, false, 0, 0);
}


// ---------------- datagram (was in dc_pkt_datagram.rs) -----------------------------------------------------------------
/// seal::Application stand-in (A-aead): XORs the payload with a key byte, tag = keyed function of header and nonce;
/// records the slices it was given.
struct SealKey {
    k: StandInKey,
    phase: bool,
    nonce: Cell<u64>,
    aad: Cell<(*const u8, usize)>,
    out: Cell<(*const u8, usize)>,
    extra_len: Cell<usize>,
}

impl crate::crypto::seal::Application for SealKey {
    fn key_phase(&self) -> KeyPhase {
        if self.phase {
            KeyPhase::One
        } else {
            KeyPhase::Zero
        }
    }

    fn tag_len(&self) -> usize {
        TAGLEN
    }

    fn encrypt(&self, packet_number: u64, header: &[u8], extra_payload: Option<&[u8]>, payload_and_tag: &mut [u8]) {
        self.nonce.set(packet_number);
        self.aad.set((header.as_ptr(), header.len()));
        self.out.set((payload_and_tag.as_ptr(), payload_and_tag.len()));
        let extra = extra_payload.unwrap_or(&[]);
        self.extra_len.set(extra.len());
        // same split as crypto/awslc.rs: [inline plaintext | room for the extra payload | tag]
        let inline_len = payload_and_tag.len() - TAGLEN - extra.len();
        let x = self.k.key[15];
        let mut i = 0;
        while i < inline_len {
            payload_and_tag[i] ^= x;
            i += 1;
        }
        let mut j = 0;
        while j < extra.len() {
            payload_and_tag[inline_len + j] = extra[j] ^ x;
            j += 1;
        }
        let t = self.k.mac(header, packet_number).to_be_bytes();
        let n = payload_and_tag.len();
        payload_and_tag[n - TAGLEN..].copy_from_slice(&t);
    }
}

/// Round trip for one concrete packet *shape*; every integer field and every byte is symbolic and full-domain.
/// A harness over symbolic shapes did not finish in 40 min on the development machine.
fn datagram_round_trip(has_pn: bool, has_next: bool, hl: usize, cl: usize, pl: usize) {
    let source_control_port: u16 = kani::any();
    let packet_number = if has_pn { Some(any_varint()) } else { None };
    let next_expected = if has_next { Some(any_varint()) } else { None };
    // call-site fact (datagram/tunneled/send.rs, and the FIXME in encoder.rs): an ack-eliciting datagram always
    // carries a packet number; encode() unwraps it.  Every shape below respects it.
    let credentials = any_credentials();
    let hdr: [u8; HMAX] = kani::any();
    let cd: [u8; CMAX] = kani::any();
    let pl_bytes: [u8; PMAX] = kani::any();
    let key = SealKey {
        k: StandInKey::new(),
        phase: kani::any(),
        nonce: Cell::new(0),
        aad: Cell::new((core::ptr::null(), 0)),
        out: Cell::new((core::ptr::null(), 0)),
        extra_len: Cell::new(0),
    };
    let mut buf = [0u8; BUF];
    let base = buf.as_ptr();

    let mut header_storage: &[u8] = &hdr[..hl];
    let control_data: &[u8] = &cd[..cl];
    let mut payload_storage: &[u8] = &pl_bytes[..pl];
    let len = encoder::encode(
        EncoderBuffer::new(&mut buf),
        source_control_port,
        packet_number,
        next_expected,
        VarInt::new(hl as u64).unwrap(),
        &mut header_storage,
        &control_data,
        VarInt::new(pl as u64).unwrap(),
        &mut payload_storage,
        &key,
        &credentials,
    );

    // control data is only written for ack-eliciting datagrams
    let cl_wire = if next_expected.is_some() { cl } else { 0 };
    let has_pn = packet_number.is_some() || next_expected.is_some();
    let aad_len = 1 + 16 + varint_len(credentials.key_id.as_u64()) + 1 + 2
        + (if has_pn { varint_len(packet_number.unwrap().as_u64()) } else { 0 })
        + varint_len(pl as u64)
        + (match next_expected { Some(v) => varint_len(v.as_u64()) + varint_len(cl as u64), None => 0 })
        + (if hl > 0 { varint_len(hl as u64) + hl } else { 0 })
        + cl_wire;
    assert!(len == aad_len + pl + TAGLEN, "C18/datagram.encode/encoded_len_as_announced");
    assert!(key.aad.get() == (base, aad_len), "C18/datagram.encode/aad_is_every_byte_before_the_payload");
    assert!(key.out.get() == (unsafe { base.add(aad_len) }, pl + TAGLEN) && key.extra_len.get() <= pl,
            "C18/datagram.encode/payload_and_tag_are_the_rest_of_the_packet");
    assert!(key.nonce.get() == (match packet_number { Some(v) => v.as_u64(), None => 0 }), "C18/datagram.encode/nonce_is_packet_number");
    // tag byte: independent transcription of the bit layout 0100 A C H K
    let tag_byte = 0b0100_0000u8
        | (if next_expected.is_some() { 0b1000 } else { 0 })
        | (if packet_number.is_some() { 0b0100 } else { 0 })
        | (if hl > 0 { 0b0010 } else { 0 })
        | (if key.phase { 0b0001 } else { 0 });
    assert!(buf[0] == tag_byte, "C18/datagram.encode/tag_byte_layout");

    let (packet, rest) = match Packet::decode(DecoderBufferMut::new(&mut buf[..len]), (), TAGLEN) {
        Ok(v) => v,
        Err(_) => {
            assert!(false, "C18/datagram.round_trip/encoded_packet_decodes");
            return;
        }
    };
    assert!(rest.is_empty(), "C18/datagram.round_trip/nothing_left_over");
    assert!(id_of(&packet.credentials().id) == id_of(&credentials.id) && packet.credentials().key_id == credentials.key_id,
            "C18/datagram.round_trip/credentials");
    assert!(packet.wire_version() == WireVersion::ZERO, "C18/datagram.round_trip/wire_version");
    assert!(packet.source_control_port() == source_control_port, "C18/datagram.round_trip/source_control_port");
    assert!(packet.packet_number().as_u64() == (if has_pn { packet_number.unwrap().as_u64() } else { 0 }),
            "C18/datagram.round_trip/packet_number");
    assert!(packet.crypto_nonce() == key.nonce.get(), "C18/datagram.round_trip/decoder_nonce_equals_encoder_nonce");
    assert!(opt_u64(packet.next_expected_control_packet()) == opt_u64(next_expected), "C18/datagram.round_trip/next_expected_control_packet");
    assert!(eq_small(packet.application_header(), &hdr[..hl]), "C18/datagram.round_trip/application_header");
    assert!(eq_small(packet.control_data(), &cd[..cl_wire]), "C18/datagram.round_trip/control_data");
    assert!(packet.header().as_ptr() == base && packet.header().len() == aad_len, "C18/datagram.round_trip/decoder_aad_equals_encoder_aad");
    assert!(packet.payload().len() == pl && packet.auth_tag().len() == TAGLEN && packet.wire_len() == len,
            "C18/datagram.round_trip/payload_and_tag_lengths");
    // undo the stand-in cipher: the payload bytes are the ones passed in
    let x = key.k.key[15];
    let p = packet.payload();
    assert!((pl < 1 || p[0] ^ x == pl_bytes[0]) && (pl < 2 || p[1] ^ x == pl_bytes[1]) && (pl < 3 || p[2] ^ x == pl_bytes[2])
                && (pl < 4 || p[3] ^ x == pl_bytes[3]),
            "C18/datagram.round_trip/payload_bytes");
    assert!(be16(packet.auth_tag()) == key.k.mac(packet.header(), packet.crypto_nonce()), "C18/datagram.round_trip/sealed_packet_verifies");

    kani::cover!(credentials.key_id.as_u64() == MAXV, "reach:largest_key_id");
    kani::cover!(true, "reach:end");
}

//@ harness props=C18 tier=thorough level=bounded timeout=2400 bound="shape: packet number + next expected control packet present, application header 2, control data 4, payload 4 bytes; all integer fields and bytes full-domain"
//@ fn packet::datagram::encoder::encode
//@ fn packet::datagram::decoder::Packet::decode
#[kani::proof]
#[kani::unwind(8)]
fn vq_c18_datagram_round_trip_all_fields() {
    datagram_round_trip(true, true, HMAX, CMAX, PMAX);
}

//@ harness props=C18 tier=thorough level=bounded timeout=2400 bound="shape: connected datagram (packet number), no application header / control data, payload 4 bytes (datagram/tunneled/send.rs call site); all integer fields and bytes full-domain"
//@ fn packet::datagram::encoder::encode
//@ fn packet::datagram::decoder::Packet::decode
#[kani::proof]
#[kani::unwind(8)]
fn vq_c18_datagram_round_trip_connected() {
    datagram_round_trip(true, false, 0, 0, PMAX);
}

//@ harness props=C18 tier=thorough level=bounded timeout=2400 bound="shape: unconnected datagram without packet number, empty payload; all integer fields full-domain"
//@ fn packet::datagram::encoder::encode
//@ fn packet::datagram::decoder::Packet::decode
#[kani::proof]
#[kani::unwind(8)]
fn vq_c18_datagram_round_trip_minimal() {
    datagram_round_trip(false, false, 0, 0, 0);
}

