use super::*;
use crate::{connection::{connection_id_mapper::*, InternalConnectionIdGenerator}, endpoint};
use s2n_quic_core::{random, stateless_reset};

fn id(bytes: &[u8]) -> connection::LocalId { connection::LocalId::try_from_bytes(bytes).unwrap() }

#[kani::proof]
#[kani::unwind(22)]
fn local_id_registry_register_contract() {
    let mut random_generator = random::testing::Generator(123);
    let mut mapper = ConnectionIdMapper::new(&mut random_generator, endpoint::Type::Server);
    let t1 = stateless_reset::Token::from([1u8; 16]);
    let t2 = stateless_reset::Token::from([2u8; 16]);
    let mut reg = mapper.create_local_id_registry(
        InternalConnectionIdGenerator::new().generate_id(), &id(b"id01"), None, t1, false);
    let limit: u64 = kani::any();
    kani::assume(limit >= 2 && limit <= 8);
    reg.set_active_connection_id_limit(limit);
    let seq_before = reg.next_sequence_number;
    let n_before = reg.registered_ids.len();
    // same id again is rejected and nothing changes
    let dup: bool = kani::any();
    let r = if dup { reg.register_connection_id(&id(b"id01"), None, t2) } else { reg.register_connection_id(&id(b"id02"), None, t2) };
    if dup {
        assert!(r.is_err(), "C13/local_id_registry.register/duplicate_rejected");
        assert!(reg.next_sequence_number == seq_before && reg.registered_ids.len() == n_before, "C13/local_id_registry.register/err_unchanged");
    } else {
        assert!(r.is_ok(), "C13/local_id_registry.register/fresh_accepted");
        assert!(reg.next_sequence_number == seq_before + 1, "C13/local_id_registry.register/consecutive_sequence");
        assert!(reg.registered_ids[n_before].sequence_number == seq_before, "C13/local_id_registry.register/sequence_assigned");
    }
}
