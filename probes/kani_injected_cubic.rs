use super::*;
use crate::time::clock::testing as time;

fn no_hystart() -> bool { false }

fn any_cc() -> CubicCongestionController {
    let mds: u16 = kani::any();
    kani::assume(mds >= 1200 && mds <= 9000);
    let mut cc = CubicCongestionController::new(mds, Default::default());
    let cwnd: u32 = kani::any();
    kani::assume(cwnd as f32 >= cc.cubic.minimum_window() && cwnd <= 1 << 30);
    cc.congestion_window = cwnd as f32;
    let bif: u32 = kani::any();
    kani::assume(bif <= 1 << 30);
    cc.bytes_in_flight = Counter::new(bif);
    let st: u8 = kani::any();
    let now = time::now();
    cc.state = match st % 4 {
        0 => SlowStart,
        1 => Recovery(now, Idle),
        2 => Recovery(now, RequiresTransmission),
        _ => State::congestion_avoidance(now),
    };
    let wl: u16 = kani::any();
    cc.cubic.w_last_max = wl as f32;
    cc.under_utilized = kani::any();
    cc
}

#[kani::proof]
#[kani::stub(crate::recovery::hybrid_slow_start::HybridSlowStart::use_hystart_parameter, no_hystart)]
fn cubic_on_congestion_event_contract() {
    let mut cc = any_cc();
    let before = cc.congestion_window;
    let was_recovery = matches!(cc.state, Recovery(_, _));
    cc.on_congestion_event(time::now());
    let min = 2.0 * cc.max_datagram_size as f32;
    assert!(cc.congestion_window >= min, "C10/cubic.on_congestion_event/floor");
    assert!(cc.congestion_window <= before, "C10/cubic.on_congestion_event/never_increases");
    if was_recovery { assert!(cc.congestion_window == before, "C10/cubic.loss/once_per_recovery"); }
    assert!(matches!(cc.state, Recovery(_, _)), "C10/cubic.on_congestion_event/enters_recovery");
}

