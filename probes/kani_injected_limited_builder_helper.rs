// builder helper: child module of crypto::application::limited, may touch private fields
impl<K> super::Key<K> {
    pub(crate) fn verif_set_encrypted(&mut self, n: u64) { self.encrypted_packets = n; }
}
